#!/usr/bin/env python3
"""Run the pinned baseline of a pyimpspec tree and compare with BASELINE.json's stable_pass list.

usage: run_baseline.py [repo_dir] [-k pytest-filter-free-args...]
exit 0 iff every stable_pass test passed. Prints the stable tests that did not pass.
"""
import json
import os
import subprocess
import sys
import tempfile
import xml.etree.ElementTree as ET


def main():
    repo = sys.argv[1] if len(sys.argv) > 1 else "/repo"
    extra = sys.argv[2:]
    base = json.load(open("/root/.vp/BASELINE.json"))
    stable = set(base["stable_pass"])
    fd, xml = tempfile.mkstemp(suffix=".junit.xml", prefix="vf_baseline_")
    os.close(fd)
    env = dict(os.environ)
    env["PYTHONPATH"] = os.path.join(repo, "src")
    env.pop("PYIMPSPEC_VERIF", None)
    cmd = ["/venv/bin/python", "-m", "pytest", "-ra", "-q", "-p", "no:cacheprovider", "--timeout=900",
           "--continue-on-collection-errors", f"--junitxml={xml}", "-n", "8", "--dist", "loadfile"] + extra
    # -n needs pytest-xdist; fall back to serial
    r = subprocess.run(["/venv/bin/python", "-c", "import xdist"], capture_output=True)
    if r.returncode != 0:
        cmd = [c for c in cmd if c not in ("-n", "8", "--dist", "loadfile")]
    p = subprocess.run(cmd, cwd=repo, env=env, capture_output=True, text=True)
    passed = set()
    try:
        root = ET.parse(xml).getroot()
        for tc in root.iter("testcase"):
            name = f"{tc.get('classname')}::{tc.get('name')}"
            if not any(ch.tag in ("failure", "error", "skipped") for ch in tc):
                passed.add(name)
    finally:
        os.unlink(xml)
    missing = sorted(stable - passed)
    print(f"baseline on {repo}: {len(stable & passed)}/{len(stable)} stable tests pass; {len(passed)} passed in total")
    for m in missing:
        print("  NOT PASSING:", m)
    if not passed:
        print(p.stdout[-2000:], p.stderr[-2000:])
    return 1 if missing else 0


if __name__ == "__main__":
    sys.exit(main())
