#!/usr/bin/env python3
import json, sys, glob, jsonschema
schema = json.load(open("/root/.vp/EVIDENCE.schema.json"))
bad = 0
for p in sorted(glob.glob("/verif/evidence/*.json")):
    try:
        jsonschema.validate(json.load(open(p)), schema); print("ok ", p)
    except Exception as e:
        bad += 1; print("BAD", p, str(e)[:300])
sys.exit(1 if bad else 0)
