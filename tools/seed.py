#!/usr/bin/env python3
"""Seeded-breakage bookkeeping.

  seed.py verify <deliver_dir> <seed_id> <property> [--needs "..."]
        confirms in a scratch worktree (outside /repo and /verif) that the patch applies to /repo's HEAD, that demo.py passes
        without and fails with it, and that the pinned baseline still passes with it; then stores /verif/seeded/<seed_id>/
        {patch.diff, demo.py, notes.txt, meta.json}. Nothing is ever committed to /repo.
  seed.py prun <seed_id> [tier]
        the same for one seed in a private patched worktree (VF_REPO), so /repo is untouched and several can run side by side.
  seed.py run [seed_id ...] [--tier quick] [--props C01,C03]
        applies each stored patch to /repo's working tree, runs the listed checks (default: the property it breaks),
        reverts with `git checkout -- .`, prints DETECTED/MISSED and updates meta.json["detected_by"].
"""
import json
import os
import shutil
import subprocess
import sys
import time

SEEDED = "/verif/seeded"
WT = "/tmp/wt/_verify"


def sh(cmd, **kw):
    return subprocess.run(cmd, capture_output=True, text=True, **kw)


def verify(deliver, seed_id, prop, needs):
    WT = "/tmp/wt/_verify_" + seed_id      # private per seed, so several verifications can run side by side
    patch = os.path.join(deliver, "patch.diff")
    demo = os.path.join(deliver, "demo.py")
    assert os.path.exists(patch) and os.path.exists(demo), "patch.diff / demo.py missing"
    if os.path.exists(WT):
        sh(["git", "-C", "/repo", "worktree", "remove", "--force", WT])
    r = sh(["git", "-C", "/repo", "worktree", "add", "--detach", WT, "HEAD"])
    assert r.returncode == 0, r.stderr
    ran = {}
    try:
        env = dict(os.environ, PYTHONPATH=WT + "/src", MPLBACKEND="Agg")
        r0 = sh(["/venv/bin/python", demo], env=env, cwd="/tmp")
        ran["demo_without_patch_exit"] = r0.returncode
        r = sh(["git", "-C", WT, "apply", patch])
        ran["patch_applies"] = r.returncode == 0
        assert r.returncode == 0, "patch does not apply to /repo HEAD: " + r.stderr
        r1 = sh(["/venv/bin/python", demo], env=env, cwd="/tmp")
        ran["demo_with_patch_exit"] = r1.returncode
        ran["demo_with_patch_tail"] = (r1.stdout + r1.stderr)[-400:]
        rb = sh(["python3", "/verif/tools/run_baseline.py", WT])
        ran["baseline_with_patch"] = rb.stdout.strip().splitlines()[0] if rb.stdout.strip() else rb.stderr[-300:]
        ran["baseline_ok"] = rb.returncode == 0
    finally:
        sh(["git", "-C", "/repo", "worktree", "remove", "--force", WT])
    ok = ran["demo_without_patch_exit"] == 0 and ran["demo_with_patch_exit"] != 0 and ran["baseline_ok"]
    print(json.dumps(ran, indent=1))
    if not ok:
        print("NOT KEPT: verification failed")
        return 1
    d = os.path.join(SEEDED, seed_id)
    os.makedirs(d, exist_ok=True)
    for f in ("patch.diff", "demo.py", "notes.txt"):
        if os.path.exists(os.path.join(deliver, f)):
            shutil.copy(os.path.join(deliver, f), os.path.join(d, f))
    meta = {"id": seed_id, "breaks_property": prop, "needs_to_manifest": needs, "source": "independent sub-agent given only the property text",
            "verified": ran, "repo_head_at_verification": sh(["git", "-C", "/repo", "log", "--format=%h", "-1"]).stdout.strip(),
            "detected_by": {}}
    json.dump(meta, open(os.path.join(d, "meta.json"), "w"), indent=1)
    print("kept as", d)
    return 0


def run(ids, tier, props):
    if sh(["git", "-C", "/repo", "status", "--porcelain"]).stdout.strip():
        print("refusing: /repo has uncommitted changes")
        return 2
    ids = ids or sorted(os.listdir(SEEDED))
    for sid in ids:
        d = os.path.join(SEEDED, sid)
        mp = os.path.join(d, "meta.json")
        if not os.path.exists(mp):
            continue
        meta = json.load(open(mp))
        plist = props or [meta["breaks_property"]]
        r = sh(["git", "-C", "/repo", "apply", os.path.join(d, "patch.diff")])
        if r.returncode != 0:
            print(f"{sid:28s} PATCH-FAIL {r.stderr.strip()[:100]}")
            continue
        try:
            for p in plist:
                if not os.path.exists(f"/verif/vf/checks/{p.lower()}.py"):
                    continue
                t = time.time()
                # evidence and replays of runs against a deliberately broken tree go to a scratch directory, not to /verif/evidence
                rr = sh(["/venv/bin/python", "-m", "vf", p, "--tier", tier], cwd="/verif", env=dict(os.environ, VF_OUT="/tmp/vf_seed_out"))
                viol = [l for l in rr.stdout.splitlines() if l.startswith("VIOLATION")]
                keys = [l.strip()[4:] for l in rr.stdout.splitlines() if l.strip().startswith("key=")]
                st = "DETECTED" if rr.returncode == 1 and viol else f"MISSED(rc={rr.returncode})"
                print(f"{sid:28s} {p} {tier:8s} {st:14s} {time.time() - t:4.0f}s {keys[:2]}", flush=True)
                if rr.returncode not in (0, 1):
                    print(rr.stdout[-1200:], rr.stderr[-600:])
                meta.setdefault("detected_by", {})[f"{p}:{tier}"] = {"status": st, "keys": keys[:4]}
        finally:
            subprocess.run(["git", "-C", "/repo", "checkout", "--", "."], check=True)
        json.dump(meta, open(mp, "w"), indent=1)
    return 0


def prun(sid, tier):
    """Like run for one seed, but in a private patched worktree (VF_REPO), so /repo is never touched and seeds can run in parallel."""
    d = os.path.join(SEEDED, sid)
    mp = os.path.join(d, "meta.json")
    meta = json.load(open(mp))
    p = meta["breaks_property"]
    wt, out = "/tmp/wt/s_" + sid, "/tmp/vf_seed_out/" + sid
    sh(["git", "-C", "/repo", "worktree", "remove", "--force", wt])
    r = sh(["git", "-C", "/repo", "worktree", "add", "--detach", wt, "HEAD"])
    assert r.returncode == 0, r.stderr
    try:
        r = sh(["git", "-C", wt, "apply", os.path.join(d, "patch.diff")])
        if r.returncode != 0:
            print(f"{sid:28s} PATCH-FAIL {r.stderr.strip()[:100]}")
            return 2
        os.makedirs(out, exist_ok=True)
        t = time.time()
        rr = sh(["/venv/bin/python", "-m", "vf", p, "--tier", tier], cwd="/verif", env=dict(os.environ, VF_REPO=wt, VF_OUT=out))
        open(os.path.join(out, "log"), "w").write(rr.stdout + rr.stderr)
        viol = [l for l in rr.stdout.splitlines() if l.startswith("VIOLATION")]
        keys = [l.strip()[4:] for l in rr.stdout.splitlines() if l.strip().startswith("key=")]
        st = "DETECTED" if rr.returncode == 1 and viol else f"MISSED(rc={rr.returncode})"
        print(f"{sid:28s} {p} {tier:8s} {st:14s} {time.time() - t:4.0f}s {keys[:2]}", flush=True)
        meta.setdefault("detected_by", {})[f"{p}:{tier}"] = {"status": st, "keys": keys[:4]}
        json.dump(meta, open(mp, "w"), indent=1)
    finally:
        sh(["git", "-C", "/repo", "worktree", "remove", "--force", wt])
    return 0


if __name__ == "__main__":
    a = sys.argv[1:]
    if a and a[0] == "prun":
        sys.exit(prun(a[1], a[2] if len(a) > 2 else "quick"))
    if a and a[0] == "verify":
        needs = ""
        if "--needs" in a:
            i = a.index("--needs")
            needs = a[i + 1]
            del a[i:i + 2]
        sys.exit(verify(a[1], a[2], a[3], needs))
    if a and a[0] == "run":
        a = a[1:]
        tier, props = "quick", None
        if "--tier" in a:
            i = a.index("--tier")
            tier = a[i + 1]
            del a[i:i + 2]
        if "--props" in a:
            i = a.index("--props")
            props = a[i + 1].split(",")
            del a[i:i + 2]
        sys.exit(run(a, tier, props))
    print(__doc__)
