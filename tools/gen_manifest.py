#!/usr/bin/env python3
"""Regenerates /verif/MANIFEST.json from the table below (run with any python3; validates with jsonschema if present)."""
import json
import os
import sys

VERIF = os.path.dirname(os.path.dirname(os.path.abspath(__file__)))
PY = "/venv/bin/python"

E1 = "bounded-exhaustive enumeration of inputs/programs/configurations against a reference model"
E2 = "explicit-state breadth-first search over operation histories on the real objects, lock-step reference model"
E2S = (" + explicit-state search over operation sequences on live objects (evaluate / modify in place / observe again) against a "
       "reference table built from specifications")
E3 = "deviation-bounded exhaustive enumeration of worker completion schedules (controlled pool) + TLC model traces replayed"

# id -> (level, technique, text, note, design_ref)
CHECKS = {
    "C01": ("exploration", E1 + " (all series/parallel skeletons up to L leaves x leaf palette x 3 construction routes x frequency vectors)" + E2S,
            "Every canonical series/parallel skeleton with <= 3 (quick) / <= 5 (thorough) leaves and the object-only shapes, every filling from a 15-entry palette that forces open, shorted, partially shorted, tiny and huge branches and container elements, built from objects, from CDC text and with CircuitBuilder, evaluated on six frequency vectors and one frequency at a time; compared with a plain-complex reference composition. Exhaustive per bound; larger skeletons only as seeded random extras. In addition every sequence of 5 (6) operations from {evaluate on three frequency vectors, set_values on a top-level element, set_values on an element inside a container's sub-circuit, set_subcircuits, a container's own parameter} on three live circuits built by each route must show the impedance of a circuit built directly with the current parameters.",
            "Leaf impedances are taken from the leaf element's own scalar get_impedances (C02 is responsible for leaves); tolerance 1e-12 x cancellation factor.", "DESIGN.md section 4, C01"),
    "C02": ("exploration", E1 + " (parameter grid in the limit box x frequency grid, 50-digit mpmath adjudication of the documented equation)" + E2S,
            "For each of the 22 non-container classes the cartesian grid of per-parameter value sets inside the class limit box x 16 (46) frequencies: numeric impedance vs the documented equation, decided by a 50-digit evaluation with a conditioning filter; all 36 open/short/finite configurations of the general transmission line x contents x L numeric vs symbolic; every circuit skeleton <= 3 leaves over an 8-entry palette symbolic vs numeric; reported 0 Hz / infinite-frequency limits vs converged finite-frequency values, for single elements over value sequences and for whole circuits over every sequence of 4 (5) operations from {evaluate at 0, at inf, at [0,1,inf]; set_values on a nested element}. Exhaustive over the declared grid only - the continuum of parameter values cannot be covered by this family.",
            "Class._equation is taken as the documented equation; refusals (NaN/inf impedance errors) are judged only inside the moderate sub-box default x [1e-3,1e3]; ill-conditioned points (reference moves > 1e-7 under +-8 ulp) are counted and skipped.", "DESIGN.md section 4, C02"),
    "C03": ("exploration", E1 + " (circuit ASTs x grammar-directed printer spellings with <= k switches off canonical; the generator is the oracle)" + E2S,
            "Every circuit AST over skeletons <= 3 (4) leaves with one focus leaf ranging over ~50 element variants (labels, fixed flags, values, limits incl. beyond the class defaults, container sub-circuits) is built through the public API, serialised with 1/3/12/17 decimals, parsed and compared with the AST; fixed point, copy/deepcopy and impedance clauses; every spelling with <= 2 (3) of 12 printer switches off the canonical position must parse to the denoted circuit. Deviation-bounded and exhaustive within the alphabet. In addition every sequence of 4 (5) operations from {serialise, serialise-parse-serialise, parse the short spelling of two default transmission lines, in-place edits of (nested) elements, set_subcircuits, deepcopy} on three live circuits per construction route.",
            "States are reached by setter calls in an order chosen by the harness; class-default sub-circuits are read from the library.", "DESIGN.md section 4, C03"),
    "C04": ("exploration", E1 + " (all atom sequences up to N, all single/double mutations of valid codes)",
            "Every string over a 31-atom lexical alphabet up to 4 (quick) / 5 (thorough) atoms, plus every single mutation of ~380 grammar-derived valid codes, is parsed by the real parse_cdc; outcome must be a Circuit, a parsing/tokenizing error or an explained ValueError; accepted strings must simulate (or raise an impedance error) and their serialisation must re-parse. Exhaustive within the stated alphabet and bound, which is the right level for a totality claim over strings.",
            "Strings outside the atom alphabet are only reached through mutations; a parse > 2 s counts as a hang.", "DESIGN.md section 4, C04"),
    "C05": ("model_checking", E2 + " (DataSet histories vs list-of-triples model)",
            "Explicit-state BFS over DataSet operation histories (construction from ascending/descending data with every small mask dictionary, set_mask, low/high pass, subtraction, dict/JSON export-import with optional keys dropped, repeated import of one dict, duplicate, average) on the real class for 1..4 (5) points to depth 4-5 (5-7); after every transition every observer and the caller's dictionaries are compared with a reference model. All histories up to the depth bound over the stated operation menu are covered.",
            "Operation menu and mask dictionaries are bounded (<= 2-4 present keys); the operands of average and the object a duplicate / import / average was derived from are re-observed after every later operation (shared arrays); histories of length <= 1 are never merged with an equal-looking state.", "DESIGN.md section 4, C05"),
    "C14": ("model_checking", E2 + " (element parameter API histories vs dictionary state machine; copy/deepcopy/re-parse oracles)",
            "Explicit-state BFS over call histories of the element parameter API on five classes (1- and 2-parameter elements, +-inf box, container) to depth 3-4 (4-6) with valid and invalid calls in keyword and positional form; every transition is compared with a reference state machine; copy, deepcopy and re-parse equality/independence are checked in every state whose values lie within their limits; class defaults and fresh instances are re-observed after every call.",
            "Value menus are 5 points per parameter; multi-key calls are modelled as applied in order up to the first refused key.", "DESIGN.md section 4, C14"),
    "C15": ("model_checking", E2 + " (registry histories from a harness-made hard reset vs reference registry)",
            "Explicit-state BFS over histories of register_element / remove_elements / reset / set_default_values / reset_default_parameter_values with ten user definitions (a symbol with an underscore, an already registered class re-registered with a contradicting equation, valid, duplicate symbol, grossly and subtly inconsistent impedance, shadowing, prefix-sharing, invalid symbols) to depth 4 (7); after every transition get_elements in all flag combinations, every built-in default, 16 parse probes and instance defaults are compared with a reference registry (set_default_values also on a container's own parameter, a sub-circuit key and an unknown key); futures after reset are covered because search continues from the reset state and the canonical state includes the module-internal dicts.",
            "Every history is replayed from a hard reset done by the harness, not by the reset() under test; re-registering built-in class objects is outside the alphabet.", "DESIGN.md section 4, C15"),
    "C16": ("exploration", E1 + " (all small circuits x type/label patterns + long chains; symbol<->element differential oracle)",
            "Every canonical skeleton <= 3 (4) leaves and the object-only shapes x every filling from six entries (repeated types, containers with nested sub-circuits, a container in a container) x nine label patterns, plus chains/ladders of 12-22 elements (shared decimal suffixes of running identifiers); identifier bijections against an independent traversal, name uniqueness, validate_circuit, fit identifiers, symbol<->element differential on Circuit.to_sympy(), CircuiTikZ labels, and the parameter table of a short real fit on a subset. Exhaustive per bound.",
            "Fits are short (max_nfev=15) and only used to read the table back; the symbolic differential is skipped when the user assigned duplicate labels.", "DESIGN.md section 4, C16"),
    "C20": ("exploration", E1 + " (all small simulable circuits x labels; totality and structural oracles on the exports)",
            "Every canonical skeleton <= 3 leaves over a 9-entry palette, object-only shapes, 4 (5) leaves over reduced palettes, and 17 labels at every position of four small circuits: to_sympy, to_sympy(substitute), to_latex, to_circuitikz (3 option sets), to_drawing and to_stack must return; variable counts, balanced begin/end, one drawn component per connection element named as the circuit names it, finite coordinates. Exhaustive per bound.",
            "Only circuits that simulate are judged; layout quality of diagrams is outside the property.", "DESIGN.md section 4, C20"),
    "C06": ("exploration", E1 + " (cross product of documented file conventions; the emitter is the oracle)",
            "Delimited tables over every header alias triple x letter case x separator/decimal mark with negation markers, unit suffixes, column orders, row orders, 1-3 sweeps (over the same or shifted frequency windows) and 1-7 points (rotating in quick, crossed in thorough), the full product of the structural switches with fixed aliases, the CSV table printed by the CLI fed back, and emitters for .mpt/.i2b/.P00/.dfr/.z/.dta (incl. drift-corrected) are written to a scratch directory, parsed with parse_data and compared with the emitted spectrum (sign of Im, one data set per sweep, sweep labels).",
            "Combinations outside the documented detection contract are not generated (decimal comma with comma separator; headers containing the separator; spaces in headers of semicolon files); extension-less parsing is not checked (parser order depends on set iteration).", "DESIGN.md section 4, C06"),
    "C07": ("exploration", E1 + " (cross product of test kinds, representations, options and grids on spectra of an independent model implementation)",
            "All six linear test implementations and cnls x {Z, Y} x capacitance x inductance x num_RC x log_F_ext x six frequency grids x sign patterns x magnitude scales over six decades (plus 1e-9 / 1e9), and every ordered pair of tests run back to back in one process on four grids sharing point count and end points or on one grid with other magnitudes/options (26k quick / 125k thorough runs): the spectrum is computed by an independent implementation of the test's own model (eq. 12 time constants, Fig. 1 / Fig. 13 topology); residuals must vanish (1e-6; cnls 1e-3), the fitted time constants must equal the reference ones and every parameter the spectrum is sensitive to must be recovered to 1e-4 where the weighted design matrix is well conditioned.",
            "Only well-posed configurations (>= 2 data points per unknown) are generated; real-valued parameters and frequencies are covered on the declared grid only.", "DESIGN.md section 4, C07"),
    "C09": ("exploration", E1 + " (metamorphic pairs: impedance scaling, frequency scaling, point reversal)",
            "Noisy mock and ladder spectra x six linear tests (+cnls) x {Z, Y} x capacitance x inductance x num_RC x log_F_ext x 13 transformations (|Z| and f scaled by 1e-6..1e6 and 2^+-20, reversed order): residuals, pseudo chi-squared, time constants and model impedances of the transformed run must equal the rescaled original within frozen, tiered tolerances (0 for reversal, 1e-6 without C/L columns and for |Z| scaling of least-squares variants, 1e-3 otherwise). Exhaustive over the declared grid.",
            "Tolerances were calibrated once on the unchanged tree and frozen; num_RC is kept in the well-conditioned range; the un-equilibrated w columns are a recorded known finding keyed by the measured un-normalised condition number.", "DESIGN.md section 4, C09"),
    "C11": ("exploration", E1 + " (option cross products on constant-phase and ladder spectra; analytic modulus as oracle)",
            "Constant-phase spectra x 5 smoothers x 4 interpolators x {Z, Y}, (num_points, polynomial_order) pairs, custom weights x frequency grids, named windows x centres x widths and the default call, ladders, scaling by 2^10 and 1e-3, modification of zero-weight moduli, the same named window on two grids of equal length one call after the other (other range; same end points with warped spacing), every smoothing filter on exactly constant/linear phase, and the window generator for 13 windows x 9 placements; oracles are the analytic modulus (2e-4), frozen per-ladder bands of 4-15 % (ladders incl. time constants at either edge of the range), equivariance, and filter exactness (1e-10).",
            "Spectra are a declared finite set; bands were calibrated once on the unchanged tree and frozen.", "DESIGN.md section 4, C11"),
    "C08": ("exploration", E1 + " (entry points x options x mask subsets x masked payloads x input order; differential masked-vs-removed oracle)",
            "About 50 (110) configured entry points - KK tests, evaluate_log_F_ext, exploratory KK, Z-HIT incl. the offset-shift case, four DRT methods and circuit fits - x every mask subset of size <= 2 over four probe positions x garbage payloads at the masked points x ascending/descending input, plus each light entry point run twice in one process with masks leaving equally many points and the same end points: result frequencies, residual definition, pseudo chi-squared, attached circuit, untouched inputs, and bit-identical result versus the data set with the masked points physically removed.",
            "All option combinations are carried by one noisy 25-point mock spectrum (plus one with negative Re Y); BHT is run with a fixed numpy seed on both legs.", "DESIGN.md section 4, C08"),
    "C13": ("exploration", E1 + " (ladder grid x DRT methods x lambda modes x scalings; generating circuit as oracle)",
            "Ladders of 1-4 RC/RQ elements x resistance scales x grids x TR-NNLS (2 modes x 3 lambda modes), the Loewner method, m(RQ)fit (exact fit and real fitting path; per-element areas by superposition), four scalings, and TR-NNLS / Loewner runs preceded in the same process by a run on another 96-point grid, ladder or mode: non-negativity, area = R_pol, a peak at every R*C, exact Loewner pairs without inductive branch, scaling laws. Tolerances frozen from a calibration on the unchanged tree.",
            "Ladders with >= 1.5 decades spacing only (the property's own restriction); calls that raise are counted and judged by C18.", "DESIGN.md section 4, C13"),
    "C12": ("exploration", E1 + " (circuit families x scales x start perturbations; method x weight x limit box x fixed subset x constraint set)",
            "Recovery with the automatic method/weight choice on six identifiable circuit families x three impedance scales x three start perturbations (18 quick / 66 thorough fits of 36 sub-fits each), and about 600 (2300) invariant fits crossing methods, weights, limit boxes (incl. limits beyond the class defaults and boxes that exclude the truth), subsets of fixed parameters and constraint sets; oracles: generating parameters up to a swap of identical blocks, vanishing pseudo chi-squared, bounds, bit-identical fixed values, constraints, parameter table and data frame equal to the returned circuit, untouched inputs, and winner = smallest pseudo chi-squared among the individually run pairs.",
            "Declared finite grid of families and scales; a FittingError is an accepted refusal; invariant fits are capped at 200 function evaluations.", "DESIGN.md section 4, C12"),
    "C10": ("exploration", E1 + " (finite grid of circuits x noise levels x seeds with a frozen acceptance band)",
            "Every bundled valid mock circuit (8 cheapest in quick, all 19 in thorough) and RC/RQ ladders x three noise levels x seeds 0..K-1 through the default automatic test: estimated/injected noise inside the frozen band [0.33, 5], suggested num_RC inside its reported limits, wrapper agrees with the exploratory entry point; drift-corrupted counterparts must have >= 2x the pseudo chi-squared at low noise; the same after the same circuit was tested at another noise level in the same process. This is the weakest claim of the set: a statistical property decided on an enumerated grid only.",
            "Band calibrated once on the unchanged tree (observed 0.84..2.55) and frozen; changes that mis-calibrate by less than about 2x are not detectable.", "DESIGN.md section 4, C10"),
    "C19": ("exploration", E1 + " (CLI commands x inputs x formats x filters, differential against the API in the same process)",
            "pyimpspec.cli.main() is run in-process for parse (mock specifiers and generated files x three formats x six filter sets, output to files, --average), circuit --simulate (plotted data sets captured), fit and drt (methods x options x formats x filters) and every subset/order of the six mock-specifier keys; every printed or written number is compared with the API call with the same settings (csv exact, json to its printed decimals, md to the printed digits).",
            "Commands run in-process with the Agg backend; plots are observed through the data sets handed to the plot functions.", "DESIGN.md section 4, C19"),
    "C17": ("model_checking", E3 + "; repetition in fresh processes",
            "Mock data must differ pairwise over a 13-seed family (small, negated, 2^31, near 2^32). Z-HIT with automatic options (4, 5 and 20 tasks per stage, three spectra incl. one whose candidates tie bit-for-bit), multi-method fits (incl. a constructed exact tie), evaluate_log_F_ext and cnls run under a controlled in-process pool: every feasible completion order for P = 2 (3) workers and for P = n in thorough, deviation-bounded (<= 1-2) otherwise; each execution is compared with the serial result. The TLC model of the pool (N tasks, P workers) supplies the completion orders independently: its terminal traces equal the enumerator's set and every one is replayed on the pool and on perform_zhit. Plus same-process and fresh-process repetition (different hash seeds), a free-running sample with the real pool, and for mock data an explicit-state search: every sequence of 3 operations from {4 data requests, modify the circuit returned by generate_mock_circuits} per definition, each request compared bit for bit with the same request as first call of a fresh process.",
            "Workers share no memory and results travel by pickle, which the controlled pool reproduces; time-outs and OS scheduling are not modelled; BHT/TR-RBF are excluded (unseeded by design).", "DESIGN.md section 4, C17"),
    "C18": ("exploration", E1 + " (option cross products: full product of the step-arithmetic dimensions, pairwise covering of the rest) + explicit-state search of the Progress counter",
            "KK (7 tests x num_RC modes x num_F_ext_evaluations in {-10, 0, 5, 10, 21} as a full product on 4..41 points, crossed with a pairwise covering array / full product over representation, capacitance, inductance, rapid, F_ext limits), Z-HIT (auto options x windows x weights full product; pairwise / full over 6 smoothers x 5 interpolators x {Z,Y} x weights x windows x (num_points, order) on 3/5/12 points), DRT (all methods and modes on 1..12 points), fit (36 method/weight pairs + auto on 1..12 points; every form of the method argument x every form of the weight argument), and each entry point called directly after the same call on another number of points over the same range (same outcome class as a first call): every call must complete or be refused by an explicit raise of a TypeError/ValueError/library error in pyimpspec code; the progress counter's own check and anything propagating from NumPy/SciPy/lmfit/statsmodels is a violation; every notification must carry a fraction in [0, 1] and a string. The Progress class itself is searched as a state machine (two nested contexts, register/unregister) to depth 7 (9).",
            "Refusal is recognised from the traceback (innermost frame is an explicit raise in pyimpspec); cnls runs its real kernel on <= 8 points only.", "DESIGN.md section 4, C18"),
}

NOT_YET = "check not built yet in this round (planned, see DESIGN.md section 4)"


def main():
    props = [json.loads(l)["id"] for l in open(os.path.join(VERIF, "properties.jsonl")) if l.strip()]
    checks = []
    na = []
    for pid in props:
        if pid in CHECKS and os.path.exists(os.path.join(VERIF, "vf", "checks", pid.lower() + ".py")):
            level, tech, text, note, ref = CHECKS[pid]
            checks.append({
                "property_id": pid,
                "quick_cmd": f"{PY} -m vf {pid} --tier quick",
                "thorough_cmd": f"{PY} -m vf {pid} --tier thorough",
                "evidence_file": f"/verif/evidence/{pid}.json",
                "replay_cmd_template": f"{PY} -m vf replay {{path}}",
                "engine": "vf",
                "level_claimed": {"category": level, "text": text, "design_ref": ref},
                "level_note": note,
                "technique": tech,
            })
        else:
            na.append({"property_id": pid, "reason": NOT_YET})
    man = {
        "version": 1,
        "setup_cmd": f"{PY} -c \"import sys; sys.path.insert(0, '/verif'); import vf.runner, vf.util; print('vf ready')\"",
        "hooks": {
            "guard": "PYIMPSPEC_VERIF",
            "enable": "no source hooks: the harness replaces multiprocessing.Pool / RNG seams by monkeypatching inside its own process; PYIMPSPEC_VERIF=1 is exported by the runner for form only",
            "baseline_off_cmd": "cd /repo && /venv/bin/python -m pytest -ra -q -p no:cacheprovider --timeout=900 --continue-on-collection-errors",
            "source_commits": [],
            "add_only": True,
        },
        "engines": [
            {"name": "vf", "path": "/verif/vf", "serves_properties": [c["property_id"] for c in checks],
             "kind_free_text": "hand-written Python explorers: E1 bounded-exhaustive enumerator, E2 explicit-state BFS by history replay, E3 schedule explorer with a controlled pool, E4 TLC pool model with trace replay"},
        ],
        "checks": checks,
        "not_applicable": na,
        "notes": "All checks run /venv/bin/python against /repo/src (current working tree). Known findings: /verif/known_findings.jsonl.",
    }
    path = os.path.join(VERIF, "MANIFEST.json")
    with open(path, "w") as fp:
        json.dump(man, fp, indent=1)
        fp.write("\n")
    try:
        import jsonschema
        jsonschema.validate(man, json.load(open("/root/.vp/MANIFEST.schema.json")))
        print("MANIFEST.json valid:", len(checks), "checks,", len(na), "not_applicable")
    except ImportError:
        print("written (jsonschema not available for validation)")


if __name__ == "__main__":
    main()
