#!/bin/bash
# usage: trypatch.sh <patch.diff> <ID> [tier]   - applies a patch to /repo's working tree, runs one check, reverts
set -u
[ -n "$(git -C /repo status --porcelain)" ] && { echo "refusing: /repo dirty"; exit 2; }
git -C /repo apply "$1" || exit 2
cd /verif
t0=$(date +%s)
VF_OUT=/tmp/vf_seed_out /venv/bin/python -m vf "$2" --tier "${3:-quick}" > /tmp/trypatch_$2.out 2>&1
rc=$?
git -C /repo checkout -- .
echo "rc=$rc $(( $(date +%s) - t0 ))s"; grep -A2 "^VIOLATION" /tmp/trypatch_$2.out | cut -c1-260 | head -${4:-12}; grep -c "^VIOLATION" /tmp/trypatch_$2.out; grep "HARNESS" /tmp/trypatch_$2.out | head -3 | cut -c1-200; tail -1 /tmp/trypatch_$2.out | cut -c1-250
