#!/bin/bash
# usage: tools/run_all.sh [quick|thorough] [seed]   - runs every registered check once, prints rc and wall time per check
tier=${1:-quick}; seed=${2:-0}
cd /verif
for i in $(seq -w 1 20); do
  id=C$i
  [ -f vf/checks/c$i.py ] || continue
  t0=$(date +%s)
  VERIF_SEED=$seed /venv/bin/python -m vf $id --tier $tier > /tmp/vf_$id.log 2>&1; rc=$?
  t1=$(date +%s)
  echo "$id rc=$rc $((t1-t0))s $(grep -c '^VIOLATION' /tmp/vf_$id.log) violations $(grep -c '^KNOWN-FINDING' /tmp/vf_$id.log) known  $(grep -c HARNESS /tmp/vf_$id.log) harness-msgs"
done
