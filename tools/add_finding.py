#!/usr/bin/env python3
"""add_finding.py known|fixed <property> <key> <what> [commit]  - appends one line to known_findings.jsonl (never used at check run time)."""
import json, sys
status, prop, key, what = sys.argv[1:5]
rec = {"property": prop, "status": status, "key": key, "what": what}
if status == "fixed":
    rec["commit"] = sys.argv[5]
    rec["line"] = f"fixed: property={prop} {sys.argv[5]} {what}"
else:
    rec["line"] = f"known: property={prop} {what}"
with open("/verif/known_findings.jsonl", "a") as fp:
    fp.write(json.dumps(rec, sort_keys=True) + "\n")
print(rec["line"])
