#!/usr/bin/env python3
"""Apply screened one-line mutants to /repo's working tree one at a time, run the property's quick check, revert.

usage: mutants.py [--tier quick|thorough] [ids or property ids ...]     (no args = every surviving mutant)
A mutant counts as DETECTED when the check exits 1 and prints a VIOLATION line. /repo is restored with
`git checkout -- .` after each mutant (the script refuses to start on a dirty /repo).
"""
import importlib.util
import os
import subprocess
import sys
import time

HERE = os.path.dirname(os.path.abspath(__file__))
NOTES = os.path.join(os.path.dirname(HERE), "notes")


def load(path):
    spec = importlib.util.spec_from_file_location("m_" + os.path.basename(path)[:-3], path)
    mod = importlib.util.module_from_spec(spec)
    spec.loader.exec_module(mod)
    return mod.M


def survivors():
    s = set()
    for line in open(os.path.join(NOTES, "mutant_screen_results.txt")):
        if "SURVIVES" in line:
            s.add(line.split("'")[1])
    extra = os.path.join(NOTES, "mutants_extra_results.txt")
    if os.path.exists(extra):
        for line in open(extra):
            if "SURVIVES" in line:
                s.add(line.split("'")[1])
    return s


def main():
    args = sys.argv[1:]
    tier = "quick"
    if "--tier" in args:
        i = args.index("--tier")
        tier = args[i + 1]
        del args[i:i + 2]
    M = []
    for f in ("mutant_screen_batch1.py", "mutant_screen_batch2.py", "mutants_extra.py"):
        p = os.path.join(NOTES, f)
        if os.path.exists(p):
            M += load(p)
    surv = survivors()
    sel = [m for m in M if m[0] in surv and (not args or m[0] in args or m[1] in args)]
    if subprocess.run(["git", "-C", "/repo", "status", "--porcelain"], capture_output=True, text=True).stdout.strip():
        print("refusing: /repo has uncommitted changes")
        return 2
    res = []
    for mid, prop, rel, old, new in sel:
        if not os.path.exists(os.path.join("/verif/vf/checks", prop.lower() + ".py")):
            continue
        p = os.path.join("/repo", rel)
        s = open(p).read()
        if s.count(old) != 1:
            print(f"{mid:32s} {prop} PATCH-FAIL (count={s.count(old)})", flush=True)
            res.append((mid, "PATCH-FAIL"))
            continue
        t = time.time()
        try:
            open(p, "w").write(s.replace(old, new))
            r = subprocess.run(["/venv/bin/python", "-m", "vf", prop, "--tier", tier], cwd="/verif", capture_output=True, text=True,
                               env=dict(os.environ, VF_OUT="/tmp/vf_seed_out"))
        finally:
            subprocess.run(["git", "-C", "/repo", "checkout", "--", "."], check=True)
        viol = [l for l in r.stdout.splitlines() if l.startswith("VIOLATION")]
        keys = [l.strip() for l in r.stdout.splitlines() if l.strip().startswith("key=")]
        status = "DETECTED" if (r.returncode == 1 and viol) else f"MISSED(rc={r.returncode})"
        print(f"{mid:32s} {prop} {status} {len(viol)} violation key(s) {time.time() - t:.0f}s  {keys[:2]}", flush=True)
        if r.returncode not in (0, 1):
            print(r.stdout[-1500:], r.stderr[-1500:])
        res.append((mid, status))
    # leave evidence files as the unchanged tree produces them
    return 0


if __name__ == "__main__":
    sys.exit(main())
