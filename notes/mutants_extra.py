# additional mutants defined during the build phase (same tuple format as mutant_screen_batch*.py); screened with tools/run_baseline.py
S = "src/pyimpspec/"
M = [
("c17_zhit_no_tiebreak", "C17", S + "analysis/zhit/offset.py", "    return sorted(results, key=lambda _: (_[0], order[(_[2], _[3], _[4])]))", "    return sorted(results, key=lambda _: _[0])"),
("c17_fit_unordered2", "C17", S + "analysis/fitting.py", "                iterator = pool.imap(_fit_process, args, 1)", "                iterator = pool.imap_unordered(_fit_process, args, 1)"),
("c17_de_unseeded", "C17", S + "analysis/kramers_kronig/exploratory.py", '        **({"seed": 42} if method == "differential_evolution" else {}),', ""),
]
M += [
("c06_detect_columns_cache", "C06", S + "data/data_set.py", "    column_indices: Dict[str, int] = {}\n    negative_columns: Dict[str, bool] = {}\n    column_names: OrderedDict[str, List[str]] = OrderedDict(",
 "    _c = _detect_columns.__dict__.setdefault('cache', {})\n    if len(df.columns) in _c:\n        return _c[len(df.columns)]\n    column_indices: Dict[str, int] = {}\n    negative_columns: Dict[str, bool] = {}\n    _c[len(df.columns)] = (column_indices, negative_columns)\n    column_names: OrderedDict[str, List[str]] = OrderedDict("),
]
