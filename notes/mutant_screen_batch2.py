import json, os, shutil, subprocess, sys, xml.etree.ElementTree as ET
from concurrent.futures import ThreadPoolExecutor
BASE = json.load(open("/root/.vp/BASELINE.json")); STABLE=set(BASE["stable_pass"])
S="src/pyimpspec/"
M = [
("c04_expect_number_guard","C04",S+"circuit/parser.py","    def expect_number(self):\n        if len(self._tokens) == 0:\n            raise ExpectedNumericValue(None)\n","    def expect_number(self):\n"),
("c04_accept_guard","C04",S+"circuit/parser.py","    def accept(self, Class: Type[Token]) -> bool:\n        if not self._tokens:\n            return False\n","    def accept(self, Class: Type[Token]) -> bool:\n"),
("c04_number_f_guard","C04",S+"circuit/tokenizer.py",'        if self.peek(0) is not None and self.peek(0) in "fF":','        if self.peek(0) in "fF":'),
("c04_number_e_guard","C04",S+"circuit/tokenizer.py",'        if self.peek(0) is not None and self.peek(0) in "eE":','        if self.peek(0) in "eE":'),
("c04_subcircuit_token_check","C04",S+"circuit/parser.py","        if isinstance(con, Element):\n            con = Series([con])\n\n        if not isinstance(con, Connection):","        if not isinstance(con, Connection):"),
("c07_ls_stage2","C07",S+"analysis/kramers_kronig/least_squares.py","            A[:, -1] = (1 / w) if admittance else w\n\n        b = _generate_b_vector(","            A[:, -1] = (-1 / w) if admittance else w\n\n        b = _generate_b_vector("),
("c07_ls_update_L","C07",S+"analysis/kramers_kronig/least_squares.py","                element.set_values(L=(-1 / L) if admittance else L)","                element.set_values(L=(1 / L) if admittance else L)"),
("c07_inv_kth_adm","C07",S+"analysis/kramers_kronig/matrix_inversion.py","            A_im[:, i + 1] = w / (1 + (w * tau) ** 2)","            A_im[:, i + 1] = -w / (1 + (w * tau) ** 2)"),
("c07_cnls_resid","C07",S+"analysis/kramers_kronig/cnls.py","            (X_exp.imag - X_fit.imag) ** 2,","            (X_exp.imag + X_fit.imag) ** 2,"),
("c07_ls_imag_R","C07",S+"analysis/kramers_kronig/least_squares.py","    x[0] = array_sum(weight * (X_exp.real - X_fit.real)) / array_sum(weight)\n    _update_circuit(circuit, x, add_capacitance, add_inductance, admittance)","    x[0] = array_sum(weight * (X_exp.real - X_fit.real)) / len(weight)\n    _update_circuit(circuit, x, add_capacitance, add_inductance, admittance)"),
("c09_ls_colscale","C09",S+"analysis/kramers_kronig/least_squares.py","        A[m // 2:, i] = (1 / w) if admittance else w\n    elif test == \"imaginary\":\n        A[:, i] = (1 / w) if admittance else w","        A[m // 2:, i] = (1 / w) if admittance else w\n    elif test == \"imaginary\":\n        A[:, i] = (1 / w) if admittance else (w / (2 * 3.141592653589793))"),
("c10_stat_mean","C10",S+"analysis/kramers_kronig/exploratory.py","        return mean(y[i:i + 2])","        return y[i]"),
("c10_threshold","C10",S+"analysis/kramers_kronig/algorithms/__init__.py","    limit_delta: int = 0,\n    threshold: float = 4.0,\n) -> Tuple[int, int]:","    limit_delta: int = 0,\n    threshold: float = 1.0,\n) -> Tuple[int, int]:"),
("c10_target_plus","C10",S+"analysis/kramers_kronig/exploratory.py","            if num_RC <= min((max(num_RCs), target_num_RC + 5))\n        ]\n\n    prog.increment()","            if num_RC <= min((max(num_RCs), target_num_RC - 2))\n        ]\n\n    prog.increment()"),
("c12_bounds_drop","C12",S+"analysis/fitting.py","                min=lower_limits[symbol],","                min=-inf,"),
("c12_table_fixed","C12",S+"analysis/fitting.py","                fixed=False,\n                unit=units[variable_name],","                fixed=True,\n                unit=units[variable_name],"),
("c12_from_lmfit_once","C12",S+"analysis/fitting.py","    _from_lmfit(fit.params, identifiers)\n\n    return (\n        circuit,\n        _calculate_pseudo_chisqr(Z_exp=Z_exp, Z_fit=circuit.get_impedances(f)),","    return (\n        circuit,\n        _calculate_pseudo_chisqr(Z_exp=Z_exp, Z_fit=circuit.get_impedances(f)),"),
("c14_copy_fixed","C14",S+"circuit/base.py","            .set_values(**self.get_values())\n            .set_fixed(**self.are_fixed())\n            .set_label(self._label)","            .set_values(**self.get_values())\n            .set_label(self._label)"),
("c14_lower_ge","C14",S+"circuit/base.py","            if value >= self._parameter_upper_limit[key]:","            if value > self._parameter_upper_limit[key]:"),
("c14_deepcopy_memo","C14",S+"circuit/base.py","        if copy is None:\n            copy = self.__copy__()\n            memo[ident] = copy\n\n        return copy","        if copy is None:\n            copy = self.__copy__()\n\n        return copy"),
("c15_allow_shadow","C15",S+"circuit/registry.py","    if not (symbol not in _ELEMENTS or _ELEMENTS[symbol] == Class):","    if False:"),
("c15_remove_keep_private","C15",S+"circuit/registry.py","                if key in _PRIVATE_ELEMENTS and _PRIVATE_ELEMENTS[key] is element:\n                    _PRIVATE_ELEMENTS.pop(key)\n","                pass\n"),
("c15_validate_off","C15",S+"circuit/registry.py","    if kwargs.get(\"validate_impedances\", _VALIDATE_IMPEDANCES):\n        _validate_impedances(Class)","    if kwargs.get(\"validate_impedances\", False):\n        _validate_impedances(Class)"),
("c19_ei_shift","C19",S+"cli/utility.py","        data.set_mask({i: True for i in args.exclude_indices})","        data.set_mask({i + 1: True for i in args.exclude_indices})"),
("c19_sim_freqs","C19",S+"cli/circuit.py","                    [args.max_frequency, args.min_frequency], args.num_per_decade\n                ),\n                label=circuit.to_string(),","                    [args.max_frequency, args.min_frequency], args.num_per_decade + 1\n                ),\n                label=circuit.to_string(),"),
("c05_highpass_le","C05",S+"data/data_set.py","            if f < cutoff:\n                mask[i] = True","            if f <= cutoff:\n                mask[i] = True"),
("c05_duplicate_nomask","C05",S+"data/data_set.py","        del dictionary[\"uuid\"]\n\n        return cls.from_dict(dictionary)","        del dictionary[\"uuid\"]\n        dictionary[\"mask\"] = {}\n\n        return cls.from_dict(dictionary)"),
("c05_getmask_alias","C05",S+"data/data_set.py","        return self._mask.copy()\n","        return self._mask\n"),
("c02_ky_sign","C02",S+"circuit/kramers_kronig.py","        return 1 / ((C*w)/(w*tau-1j))","        return 1 / ((C*w)/(w*tau+1j))"),
("c02_hn_alt","C02",S+"circuit/havriliak_negami.py","        return R / ((1 + (2 * pi * f * 1j * tau) ** a) ** b)","        return R / ((1 + (2 * pi * f * 1j) ** a * tau) ** b)"),
]
def run(m):
    mid, prop, rel, old, new = m
    d=f"/tmp/mut/w_{mid}"
    if os.path.exists(d): shutil.rmtree(d)
    shutil.copytree("/tmp/mut/base", d)
    p=os.path.join(d, rel); s=open(p).read()
    if s.count(old)!=1: shutil.rmtree(d); return (mid, prop, f"PATCH-FAIL count={s.count(old)}", None)
    open(p,"w").write(s.replace(old,new))
    xml=f"/tmp/mut/{mid}.xml"
    env=dict(os.environ, PYTHONPATH=d+"/src", MPLBACKEND="Agg", XDG_CONFIG_HOME=d+"/.xdg")
    r=subprocess.run(["/venv/bin/python","-m","pytest","-q","-p","no:cacheprovider","--timeout=900","--continue-on-collection-errors","-x" if False else "-q","--junitxml="+xml], cwd=d, env=env, capture_output=True, text=True)
    passed=set()
    try:
        for tc in ET.parse(xml).getroot().iter("testcase"):
            if not any(ch.tag in ("failure","error","skipped") for ch in tc):
                passed.add(f"{tc.get('classname')}::{tc.get('name')}")
    except Exception as e:
        shutil.rmtree(d); return (mid, prop, f"XML-FAIL {e}", None)
    missing=sorted(STABLE-passed)
    shutil.rmtree(d); os.remove(xml)
    return (mid, prop, "SURVIVES" if not missing else f"KILLED by {len(missing)}", missing[:3])
if __name__=="__main__":
    sel = [m for m in M if (len(sys.argv)<2 or m[0] in sys.argv[1:])]
    with ThreadPoolExecutor(10) as ex:
        for r in ex.map(run, sel): print(r, flush=True)
