import json, os, shutil, subprocess, sys, xml.etree.ElementTree as ET
from concurrent.futures import ThreadPoolExecutor
BASE = json.load(open("/root/.vp/BASELINE.json")); STABLE=set(BASE["stable_pass"])
S="src/pyimpspec/"
M = [
# (id, property, file, old, new)
("c01_parallel_short_eps","C01",S+"circuit/parallel.py","zero_indices: Indices = where(Z == 0.0)[0]","zero_indices: Indices = where(abs(Z) < 1e-9)[0]"),
("c01_series_skip_container","C01",S+"circuit/series.py","            if isinstance(elem_con, Container):\n                Z = elem_con._impedance(\n                    f,\n                    **elem_con.get_values(),\n                    **elem_con.get_subcircuits(),\n                )","            if isinstance(elem_con, Container):\n                Z = 0.5 * elem_con._impedance(\n                    f,\n                    **elem_con.get_values(),\n                    **elem_con.get_subcircuits(),\n                )"),
("c01_parallel_open_counts","C01",S+"circuit/parallel.py","                num_open_paths += 1\n                continue","                num_open_paths += 1\n                path_impedances.append(Z * 0 + 1e300)\n                continue"),
("c01_builder_decimals","C01",S+"circuit/circuit_builder.py","def _to_string(self, decimals: int = 12)","def _to_string(self, decimals: int = 6)"),
("c02_tlmbo_L","C02",S+"circuit/transmission_line_model.py","        w_L: float = 1 / ((R_i * Y * L**2) ** (1 / n))  # Eq. 30 [1]\n        alpha: ComplexImpedances = (1j * w / w_L) ** (n / 2)\n\n        # Eq. 31 [1]","        w_L: float = 1 / ((R_i * Y * L) ** (1 / n))  # Eq. 30 [1]\n        alpha: ComplexImpedances = (1j * w / w_L) ** (n / 2)\n\n        # Eq. 31 [1]"),
("c02_zarc_pow","C02",S+"circuit/zarc.py","return R / (1 + (1j * 2 * pi * f * tau) ** n)","return R / (1 + 1j ** n * (2 * pi * f) ** n * tau)"),
("c02_gerischer_k","C02",S+"circuit/gerischer.py","return 1 / (Y * (k + 2 * pi * f * 1j) ** n)","return 1 / (Y * (k**n + (2 * pi * f * 1j) ** n))"),
("c02_tlm_sympy_eq18","C02",S+"circuit/transmission_line_model.py","                    return x.expr * lm / Ct\n","                    return x.expr * lm * Ct\n"),
("c03_flatten_any","C03",S+"circuit/parser.py","            if type(item) is Class:\n                items.extend(reversed(item._elements))","            if isinstance(item, Connection) and len(item._elements) == 1:\n                items.extend(reversed(item._elements))\n            elif type(item) is Class:\n                items.extend(reversed(item._elements))"),
("c03_pct_upper","C03",S+"circuit/parser.py","            return value * limit.value / 100","            return (value * limit.value / 100) if not upper else (value + value * limit.value / 100)"),
("c03_fixed_lower_f","C03",S+"circuit/tokenizer.py",'if self.peek(0) is not None and self.peek(0) in "fF":','if self.peek(0) is not None and self.peek(0) in "F":'),
("c03_tostring_upper_inf","C03",S+"circuit/base.py","            if isinf(upper):\n                string += \"/inf\"","            if isinf(upper) or upper > 1e15:\n                string += \"/inf\""),
("c04_expect_guard","C04",S+"circuit/parser.py","    def expect(self, Class: Type[Token]):\n        if len(self._tokens) == 0:\n            raise InsufficientTokens()\n","    def expect(self, Class: Type[Token]):\n"),
("c04_label_guard","C04",S+"circuit/tokenizer.py","            while char is not None and char in valid_chars:\n                self.consume(self.pop())\n                char = self.peek(0)\n\n        else:","            while char in valid_chars:\n                self.consume(self.pop())\n                char = self.peek(0)\n\n        else:"),
("c05_lowpass_ge","C05",S+"data/data_set.py","            if f > cutoff:\n                mask[i] = True","            if f >= cutoff:\n                mask[i] = True"),
("c05_todict_masked","C05",S+"data/data_set.py",'"frequencies": self._frequencies.tolist(),','"frequencies": self.get_frequencies().tolist() if not any(self._mask.values()) else self._frequencies.tolist()[::1],'),
("c05_setmask_nocopy","C05",S+"data/data_set.py","        mask = mask.copy()\n\n        for i in list(mask.keys()):","        for i in list(mask.keys()):"),
("c05_subtract_masked_only","C05",S+"data/data_set.py","        self._impedances = self._impedances - impedances","        self._impedances = array([z - (impedances[0] if impedances.size == 1 else impedances[i]) if not self._mask.get(i, False) else z for i, z in enumerate(self._impedances)])"),
("c06_alias_order","C06",S+"data/data_set.py",'"real": ["z\'", "z re", "z_re", "zre", "real", "re"],\n            "magnitude"','"real": ["z re", "z_re", "zre", "real", "re", "z\'"],\n            "magnitude"'),
("c06_neg_unicode","C06",S+"data/data_set.py",'negative_columns[key] = col[0] in ("-", "−")','negative_columns[key] = col[0] in ("-",)'),
("c06_decimal_real_only","C06",S+"data/data_set.py",'                im = float(row[column_indices["imaginary"]].replace(",", "."))','                im = float(row[column_indices["imaginary"]])'),
("c06_p00_sign","C06",S+"data/formats/p00.py","imag.append(-_parse_string_as_float(columns[2]))","imag.append(_parse_string_as_float(columns[2]))"),
("c07_Y_cap_sign","C07",S+"analysis/kramers_kronig/least_squares.py","        A[:, i] = w if admittance else (-1 / w)\n\n\ndef _add_inductance_to_A_matrix","        A[:, i] = -w if admittance else (-1 / w)\n\n\ndef _add_inductance_to_A_matrix"),
("c07_inv_L_sign","C07",S+"analysis/kramers_kronig/matrix_inversion.py","        L *= -1\n","        L *= 1\n"),
("c07_tau_range","C07",S+"analysis/kramers_kronig/utility.py","    tau_max: float64 = F_ext / min(w)","    tau_max: float64 = F_ext / min(w) / (F_ext ** 0.5)"),
("c08_zhit_masked_all","C08",S+"analysis/zhit/__init__.py","    X_exp: NDArray[complex128] = data.get_impedances() ** (-1 if admittance else 1)","    X_exp: NDArray[complex128] = data.get_impedances(masked=False if len(data.get_frequencies()) < data.get_num_points(masked=None) else None) ** (-1 if admittance else 1)"),
("c08_resid_fit_norm","C08",S+"analysis/utility.py","    return (Z_exp - Z_fit) / abs(Z_exp)","    return (Z_exp - Z_fit) / abs(Z_fit)"),
("c08_fit_nodeepcopy","C08",S+"analysis/fitting.py","    circuit = deepcopy(original_circuit)","    circuit = original_circuit"),
("c09_weight_adm","C09",S+"analysis/kramers_kronig/utility.py","    if admittance:\n        Y: NDArray[complex128] = 1 / Z\n        return (Y.real**2 + Y.imag**2) ** -1","    if False:\n        Y: NDArray[complex128] = 1 / Z\n        return (Y.real**2 + Y.imag**2) ** -1"),
("c09_scale_absZ","C09",S+"analysis/kramers_kronig/matrix_inversion.py","    A_re, A_im = _generate_A_matrices(\n        w,\n        taus,\n        add_capacitance,\n        admittance,\n        abs(X_exp),\n    )","    A_re, A_im = _generate_A_matrices(\n        w,\n        taus,\n        add_capacitance,\n        admittance,\n        abs(X_exp) * 0 + 1.0,\n    )"),
("c10_noise_const","C10",S+"analysis/kramers_kronig/utility.py","    return sqrt(5000 * pseudo_chisqr / len(Z))","    return sqrt(500 * pseudo_chisqr / len(Z))"),
("c11_gamma_sign","C11",S+"analysis/zhit/reconstruction.py","    gamma = -pi / 6","    gamma = pi / 6"),
("c11_two_over_pi","C11",S+"analysis/zhit/reconstruction.py","            ln_modulus.append(2 / pi * integral + gamma * derivative)","            ln_modulus.append(1 / pi * integral + gamma * derivative)"),
("c12_vary","C12",S+"analysis/fitting.py","                vary=not fixed[symbol],","                vary=True,"),
("c12_best_by_lmfit","C12",S+"analysis/fitting.py","        fits.sort(key=lambda _: log(_[1]) if _[2] is not None else inf)","        fits.sort(key=lambda _: log(_[2].chisqr) if _[2] is not None else inf)"),
("c13_gamma_rpol","C13",S+"analysis/drt/tr_nnls.py","        gamma: Gammas = g_tau * R_pol","        gamma: Gammas = g_tau"),
("c13_lm_gamma","C13",S+"analysis/drt/lm.py","    gammas: Gammas = (-residues / eigenvalues).real","    gammas: Gammas = (-residues).real"),
("c13_mrq_gauss","C13",S+"analysis/drt/mrq_fit.py","                R / (W * sqrt(pi)) * exp(-((ln(tau / tau_0) / W) ** 2))","                R / (W * pi) * exp(-((ln(tau / tau_0) / W) ** 2))"),
("c14_noclamp_upper","C14",S+"circuit/base.py","            if self._parameter_value[key] > value:\n                self._parameter_value[key] = value\n\n            self._parameter_upper_limit[key] = value","            self._parameter_upper_limit[key] = value"),
("c14_alias_defaults","C14",S+"circuit/base.py","        self._parameter_fixed: Dict[str, bool] = self._parameter_default_fixed.copy()","        self._parameter_fixed: Dict[str, bool] = self._parameter_default_fixed"),
("c14_container_nodeepcopy","C14",S+"circuit/base.py","                self._subcircuit_value[key] = (\n                    deepcopy(value) if value is not None else value\n                )","                self._subcircuit_value[key] = value"),
("c15_reset_nodefaults","C15",S+"circuit/registry.py","    if default_parameters:\n        reset_default_parameter_values()","    if default_parameters and elements:\n        reset_default_parameter_values()"),
("c15_snapshot_nocopy","C15",S+"circuit/registry.py","        _DEFAULT_ELEMENT_PARAMETERS[key] = element.get_default_values().copy()","        _DEFAULT_ELEMENT_PARAMETERS[key] = element._parameter_default_value"),
("c16_extract_suffix","C16",S+"analysis/fitting.py",'            lambda _: _.endswith(f"_{internal_id}"),','            lambda _: _.endswith(f"{internal_id}"),'),
("c16_pertype_container","C16",S+"circuit/base.py","        counts: Dict[str, int] = {element.get_symbol(): 0 for element in elements}\n\n        for element in elements:","        counts: Dict[str, int] = {element.get_symbol(): 0 for element in elements}\n\n        for element in sorted(elements, key=lambda e: isinstance(e, Container)):"),
("c17_zhit_sort_round","C17",S+"analysis/zhit/offset.py","    return sorted(results, key=lambda _: _[0])","    return sorted(results, key=lambda _: round(_[0], 2))"),
("c17_fit_unordered","C17",S+"analysis/fitting.py","                iterator = pool.imap(_fit_process, args, 1)","                iterator = pool.imap_unordered(_fit_process, args, 1)"),
("c18_steps_neg","C18",S+"analysis/kramers_kronig/exploratory.py","            num_steps += abs(num_F_ext_evaluations) + 2","            num_steps += abs(num_F_ext_evaluations) - 2"),
("c18_zhit_steps","C18",S+"analysis/zhit/__init__.py","    num_steps += num_window * (num_smoothing * num_interpolation)","    num_steps += (num_smoothing * num_interpolation)"),
("c19_filters_swapped","C19",S+"cli/utility.py","    if args.low_pass_cutoff > 0.0:\n        data.low_pass(args.low_pass_cutoff)","    if args.low_pass_cutoff > 0.0:\n        data.high_pass(args.low_pass_cutoff)"),
("c19_noise_int","C19",S+"cli/utility.py",'        "noise": float,','        "noise": lambda x: float(int(float(x))),'),
("c20_series_sympy_one","C20",S+"circuit/diagrams/circuitikz.py",'                        label = f"{symbol}_{{\\\\rm {label}}}"','                        label = f"{symbol}_{{\\\\rm {identifiers[element_connection]}}}"'),
("c20_tikz_nested_wire","C20",S+"circuit/diagrams/circuitikz.py","                if num_nested_parallels > 0 and i == 0:\n                    w, h = short_wire(x + width, y)","                if num_nested_parallels > 1 and i == 0:\n                    w, h = short_wire(x + width, y)"),
]
def run(m):
    mid, prop, rel, old, new = m
    d=f"/tmp/mut/w_{mid}"
    if os.path.exists(d): shutil.rmtree(d)
    shutil.copytree("/tmp/mut/base", d)
    p=os.path.join(d, rel); s=open(p).read()
    if s.count(old)!=1: shutil.rmtree(d); return (mid, prop, f"PATCH-FAIL count={s.count(old)}", None)
    open(p,"w").write(s.replace(old,new))
    xml=f"/tmp/mut/{mid}.xml"
    env=dict(os.environ, PYTHONPATH=d+"/src", MPLBACKEND="Agg", XDG_CONFIG_HOME=d+"/.xdg")
    r=subprocess.run(["/venv/bin/python","-m","pytest","-q","-p","no:cacheprovider","--timeout=900","--continue-on-collection-errors","-x" if False else "-q","--junitxml="+xml], cwd=d, env=env, capture_output=True, text=True)
    passed=set()
    try:
        for tc in ET.parse(xml).getroot().iter("testcase"):
            if not any(ch.tag in ("failure","error","skipped") for ch in tc):
                passed.add(f"{tc.get('classname')}::{tc.get('name')}")
    except Exception as e:
        shutil.rmtree(d); return (mid, prop, f"XML-FAIL {e}", None)
    missing=sorted(STABLE-passed)
    shutil.rmtree(d); os.remove(xml)
    return (mid, prop, "SURVIVES" if not missing else f"KILLED by {len(missing)}", missing[:3])
if __name__=="__main__":
    sel = [m for m in M if (len(sys.argv)<2 or m[0] in sys.argv[1:])]
    with ThreadPoolExecutor(10) as ex:
        for r in ex.map(run, sel): print(r, flush=True)
