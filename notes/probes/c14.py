import warnings, copy, collections, time, math
warnings.simplefilter("ignore")
from pyimpspec import *
from pyimpspec.circuit.elements import *
inf=math.inf
CLS = Capacitor; P="C"
dv, dl, du = CLS.get_default_value(P), CLS.get_default_lower_limit(P), CLS.get_default_upper_limit(P)
vals = [dl/10 if dl>0 else -1.0, dl, dv, du if du<inf else 1e9, (du*10 if du<inf else 1e12)]
lims_lo = [-inf, dl/10 if dl>0 else -1.0, dl, dv, (du*10 if du<inf else 1e12)]
lims_hi = [dl/10 if dl>0 else -1.0, dv, du, (du*100 if du<inf else 1e13), inf]
OPS = [("set_values",v) for v in vals]+[("set_lower",v) for v in lims_lo]+[("set_upper",v) for v in lims_hi]+[("set_fixed",True),("set_fixed",False),("label","a"),("label",""),("label","12"),("reset",None),("bad_key",None)]
def apply_impl(e, op):
    k,a = op
    try:
        if k=="set_values": e.set_values(**{P:a})
        elif k=="set_lower": e.set_lower_limits(**{P:a})
        elif k=="set_upper": e.set_upper_limits(P, a)
        elif k=="set_fixed": e.set_fixed(**{P:a})
        elif k=="label": e.set_label(a)
        elif k=="reset": e.reset_parameters()
        elif k=="bad_key": e.set_values(nope=1.0)
        return "ok"
    except Exception as ex: return type(ex).__name__
def obs(e): return (e.get_value(P), e.get_lower_limit(P), e.get_upper_limit(P), e.is_fixed(P), e.get_label())
def apply_ref(s, op):
    v,lo,hi,fx,lb = s; k,a=op
    if k=="set_values": return (float(a),lo,hi,fx,lb),"ok"
    if k=="set_lower":
        if a>=hi: return s,"ValueError"
        return (max(v,a),a,hi,fx,lb),"ok"
    if k=="set_upper":
        if a<=lo: return s,"ValueError"
        return (min(v,a),lo,a,fx,lb),"ok"
    if k=="set_fixed": return (v,lo,hi,a,lb),"ok"
    if k=="label":
        if a!="" and a.isdigit(): return s,"ValueError"
        return (v,lo,hi,fx,a),"ok"
    if k=="reset": return (dv,dl,du,CLS.is_fixed_by_default(P),lb),"ok"   # ideal semantics
    if k=="bad_key": return s,"KeyError"
def build(hist):
    e = CLS()
    for op in hist: apply_impl(e, op)
    return e
init = obs(CLS()); seen={init:[]}; frontier=collections.deque([[]]); trans=0; viol=collections.Counter(); ex={}
t=time.time(); DEPTH=4
while frontier:
    h = frontier.popleft()
    if len(h)>=DEPTH: continue
    s = obs(build(h))
    for op in OPS:
        e = build(h); r = apply_impl(e, op); o = obs(e); trans+=1
        s2, r2 = apply_ref(s, op)
        if (o,r)!=(s2,r2):
            key=(op[0], r, r2); viol[key]+=1; ex.setdefault(key,(h+[op], o, s2))
        # copy checks when value within limits
        if o[1]<=o[0]<=o[2]:
            for nm,fn in (("copy",copy.copy),("deepcopy",copy.deepcopy),("parse",lambda x: parse_cdc(x.to_string(17)).get_elements()[0])):
                try:
                    c = fn(e)
                    if obs(c)!=o: viol[(nm,"differs")]+=1; ex.setdefault((nm,"differs"),(h+[op],o,obs(c)))
                except Exception as exn:
                    viol[(nm,type(exn).__name__)]+=1; ex.setdefault((nm,type(exn).__name__),(h+[op],o,str(exn)[:60]))
        if o not in seen: seen[o]=h+[op]; frontier.append(h+[op])
print("states",len(seen),"transitions",trans,f"{time.time()-t:.1f}s")
for k,v in viol.items(): print(v,k,ex[k])
