import warnings, time
warnings.simplefilter("ignore")
import numpy as np
from pyimpspec import *
def ladder(Rs, taus, ns=None, R0=10.0):
    s = f"R{{R={R0}}}" if R0 else ""
    for i,(R,t) in enumerate(zip(Rs,taus)):
        n = ns[i] if ns else 1.0
        if n==1.0: s += f"(R{{R={R}}}C{{C={t/R}}})"
        else: s += f"(R{{R={R}}}Q{{Y={t**n/R},n={n}}})"
    return parse_cdc(s)
f = np.logspace(5,-3,8*10+1)
for Rs,taus in [((100,),(1e-1,)), ((100,50),(1e-3,1e-1)), ((100,50,200),(1e-3,3e-2,2.0))]:
    c = ladder(Rs,taus); d = simulate_spectrum(c,f)
    for kw in [dict(method="tr-nnls"), dict(method="tr-nnls",mode="imaginary"), dict(method="tr-nnls",lambda_value=1e-3), dict(method="tr-nnls",lambda_value=-2.0)]:
        t=time.time(); r = calculate_drt(d, **kw)
        tau,g = r.get_drt_data()
        area = np.trapezoid(g[::-1], np.log(tau[::-1])) if tau[0]>tau[-1] else np.trapezoid(g, np.log(tau))
        pk = r.get_peaks()
        print(kw, "min g", g.min(), "area", area, "Rpol", sum(Rs), "peaks", [f"{x:.3g}" for x in pk[0]], "lambda", r.lambda_value, f"{time.time()-t:.2f}s")
    c2 = ladder(Rs,taus,R0=0); d2 = simulate_spectrum(c2,f)
    r = calculate_drt(d2, method="lm")
    t1,g1,t2,g2 = r.get_drt_data()
    print("LM", sorted(zip(np.round(t1,6), np.round(g1,4))), t2, g2)
    cq = ladder(Rs,taus,ns=[0.8]*len(Rs)); 
    fr = fit_circuit(cq, simulate_spectrum(cq,f), method="leastsq", weight="boukamp", num_procs=1)
    r = calculate_drt(simulate_spectrum(cq,f), method="mrq-fit", circuit=fr.circuit, fit=fr)
    tau,g = r.get_drt_data()
    print("mrq area", abs(np.trapezoid(g, np.log(tau))), sum(Rs), [f"{x:.3g}" for x in r.get_peaks()[0]])
