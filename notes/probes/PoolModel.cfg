CONSTANTS N = 4
          P = 2
INIT Init
NEXT Next
INVARIANT TypeOK
