import warnings, time
warnings.simplefilter("ignore")
import numpy as np
from pyimpspec import *
from pyimpspec.analysis.utility import set_default_num_procs
data = generate_mock_data("CIRCUIT_1", noise=0.05, seed=1)[0]
print(data.get_num_points())
def T(label, fn):
    t=time.time()
    try:
        r = fn(); s = "ok"
    except Exception as e:
        r=None; s = f"{type(e).__name__}: {str(e)[:100]}"
    print(f"{label:50s} {time.time()-t:7.2f}s {s}")
    return r
for test in ["real","complex","imaginary","real-inv","complex-inv","imaginary-inv","cnls"]:
    T(f"KK {test} num_RC=10 nF=0", lambda: perform_kramers_kronig_test(data, test=test, num_RC=10, num_F_ext_evaluations=0, admittance=False))
r = T("KK default auto", lambda: perform_kramers_kronig_test(data))
print(r.num_RC, r.get_estimated_percent_noise(), r.admittance)
r = T("KK default auto num_procs=1", lambda: perform_kramers_kronig_test(data, num_procs=1))
T("KK auto, nF=0", lambda: perform_kramers_kronig_test(data, num_F_ext_evaluations=0))
T("KK auto, nF=-10", lambda: perform_kramers_kronig_test(data, num_F_ext_evaluations=-10, admittance=False))
T("zhit default", lambda: perform_zhit(data))
T("zhit auto/auto/auto procs=1", lambda: perform_zhit(data, smoothing="auto", interpolation="auto", window="auto", num_procs=1))
T("zhit auto/auto/auto procs=16", lambda: perform_zhit(data, smoothing="auto", interpolation="auto", window="auto"))
T("drt tr-nnls", lambda: calculate_drt(data, method="tr-nnls"))
T("drt tr-nnls lambda=1e-3", lambda: calculate_drt(data, method="tr-nnls", lambda_value=1e-3))
T("drt tr-nnls lcurve", lambda: calculate_drt(data, method="tr-nnls", lambda_value=-2.0))
T("drt lm", lambda: calculate_drt(data, method="lm"))
T("drt lm pseudo_chisqr", lambda: calculate_drt(data, method="lm", model_order_method="pseudo_chisqr"))
T("drt bht", lambda: calculate_drt(data, method="bht"))
T("drt tr-rbf", lambda: calculate_drt(data, method="tr-rbf"))
c = parse_cdc("R(RC)(RQ)")
T("drt mrq-fit", lambda: calculate_drt(data, method="mrq-fit", circuit=c))
c = parse_cdc("R{R=90}(R{R=180}C{C=1e-6})(R{R=600}W{Y=5e-4})")
print(data.get_label())
fr = T("fit auto/auto", lambda: fit_circuit(c, data))
fr = T("fit auto/auto procs=1", lambda: fit_circuit(c, data, num_procs=1))
fr = T("fit leastsq/boukamp procs=1", lambda: fit_circuit(c, data, method="leastsq", weight="boukamp", num_procs=1))
print(fr.circuit.serialize(4), fr.pseudo_chisqr)
