import warnings, time
warnings.simplefilter("ignore")
import numpy as np
from pyimpspec import *
from pyimpspec.circuit.elements import TransmissionLineModel
from pyimpspec.analysis.fitting import generate_fit_identifiers
def probe(cdc):
    c = parse_cdc(cdc)
    print("==", cdc, "->", c.to_string())
    for running in (True, False):
        ids = c.generate_element_identifiers(running=running)
        print("  running" if running else "  pertype", [(e.get_symbol(), i) for e,i in ids.items()])
    ids = c.generate_element_identifiers(running=False)
    try: print("  names", [c.get_element_name(e, ids) for e in ids])
    except Exception as e: print("  names EXC", type(e).__name__, e)
    t=time.time()
    try:
        ex = c.to_sympy(); print("  sympy symbols", sorted(map(str, ex.free_symbols)), f"{time.time()-t:.2f}s")
    except Exception as e: print("  sympy EXC", type(e).__name__, e)
    try:
        ex = c.to_sympy(substitute=True); print("  subst symbols", sorted(map(str, ex.free_symbols)))
        f=np.array([1.0, 10.0]); Zs = np.array([complex(ex.subs("f", x)) for x in f]); print("   Z agree", np.allclose(Zs, c.get_impedances(f)))
    except Exception as e: print("  subst EXC", type(e).__name__, e)
    try: print("  fitids", [tuple(v.__dict__.values()) if hasattr(v,'__dict__') else v for v in generate_fit_identifiers(c).values()])
    except Exception as e: print("  fitids EXC", type(e).__name__, e)
    try: s = c.to_circuitikz(); print("  tikz to[] count", s.count("to["), "begin/end", s.count("\\begin"), s.count("\\end"))
    except Exception as e: print("  tikz EXC", type(e).__name__, e)
    try: c.to_drawing(); print("  drawing ok")
    except Exception as e: print("  drawing EXC", type(e).__name__, e)
    try: c.to_latex(); print("  latex ok")
    except Exception as e: print("  latex EXC", type(e).__name__, e)
probe("R(RC)")
probe("R{:a}(R{:b}C)R")
probe("RTlm{X_1=[R(RC)]}R")
probe("(Tlm{X_1=[Tlm]}R)")
probe("R{:x}R{:x}")
probe("R{:R_2}RR")
probe("(R[C(RL)])")
