import warnings, itertools, time
warnings.simplefilter("ignore")
import numpy as np
from pyimpspec import *
from pyimpspec.analysis.kramers_kronig.utility import _generate_time_constants, _generate_circuit
def gen(f, num_RC, log_F_ext, addC, addL, adm, signs, scale):
    w = 2*np.pi*f
    taus = _generate_time_constants(w, num_RC, log_F_ext)
    c = _generate_circuit(taus, addC, addL, adm)
    els = c.get_elements()
    k=0
    truth = {}
    for e in els:
        n = type(e).__name__
        if n=="Resistor": e.set_values(R=scale*1.7)
        elif n=="KramersKronigRC":
            e.set_values(R=scale*signs[k%len(signs)]*(1+0.3*k)); k+=1
        elif n=="KramersKronigAdmittanceRC":
            # C_k: choose tau/R
            e.set_values(C=signs[k%len(signs)]*e.get_value("tau")/(scale*(1+0.3*k))); k+=1
        elif n=="Capacitor":
            e.set_lower_limits(C=-np.inf).set_upper_limits(C=np.inf); e.set_values(C=(1e-9/scale) if adm else 1e-2/scale)
        elif n=="Inductor":
            e.set_values(L=(1e3*scale) if adm else 1e-6*scale)
    return c
t0=time.time()
worst = {}
for ppd in (5, 10):
  f = np.logspace(4, -1, 5*ppd+1)
  for test in ["real","complex","imaginary","real-inv","complex-inv","imaginary-inv","cnls"]:
    for adm in (False, True):
      for addC in (False, True):
        for addL in ((True,) if test.endswith("-inv") else (False, True)):
          for num_RC in (2, 5, 3*5 if ppd==5 else 15):
            for lfe in (-0.5, 0.0, 0.7):
              if test=="cnls" and (num_RC>5 or lfe!=0.0 or ppd==10): continue
              for signs in ((1,), (1,-1)):
                c = gen(f, num_RC, lfe, addC, addL, adm, signs, 100.0)
                data = simulate_spectrum(c, f)
                try:
                    r = perform_kramers_kronig_test(data, test=test, num_RC=num_RC, add_capacitance=addC, add_inductance=addL, admittance=adm, num_F_ext_evaluations=0, log_F_ext=lfe, num_procs=1)
                    m = float(np.max(np.abs(r.residuals)))
                except Exception as e:
                    m = f"{type(e).__name__}:{str(e)[:60]}"
                key=(test,adm,addC,addL)
                if isinstance(m,str): print(key,num_RC,lfe,signs,m); continue
                if m > worst.get(key,(0,))[0]: worst[key]=(m,num_RC,lfe,signs,ppd)
for k,v in worst.items(): print(k, v)
print(time.time()-t0)
