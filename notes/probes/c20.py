import warnings
warnings.simplefilter("ignore")
from pyimpspec import *
for lbl in ["a b","a-b","a+b","lambda","I","f","pi","x.y","a(b","ct","1a","a,b","é"]:
    try:
        r = Resistor().set_label(lbl)
    except Exception as e:
        print(repr(lbl), "set_label refused", type(e).__name__); continue
    c = Circuit(Series([r, Capacitor()]))
    for what, fn in [("sympy", lambda: c.to_sympy()), ("latex", lambda: c.to_latex()), ("tikz", lambda: c.to_circuitikz()), ("draw", lambda: c.to_drawing()), ("subst", lambda: c.to_sympy(substitute=True))]:
        try:
            o = fn(); 
            if what=="sympy": print(repr(lbl), what, "ok", sorted(map(str,o.free_symbols)))
        except Exception as e:
            print(repr(lbl), what, "EXC", type(e).__name__, str(e)[:80])
