import warnings, time, itertools
warnings.simplefilter("ignore")
import numpy as np
from pyimpspec import *
d0 = generate_mock_data("CIRCUIT_1", noise=0.1, seed=7)[0]
f0 = d0.get_frequencies(); Z0 = d0.get_impedances()
worst = {}
t=time.time(); n=0
for test in ["real","complex","imaginary","real-inv","complex-inv","imaginary-inv"]:
  for adm in (False, True):
    for addC in (False,True):
      for num_RC in (3, 8, 20):
        for lfe in (0.0, 0.5):
          kw = dict(test=test, num_RC=num_RC, add_capacitance=addC, add_inductance=True, admittance=adm, num_F_ext_evaluations=0, log_F_ext=lfe)
          r0 = perform_kramers_kronig_test(d0, **kw)
          for kind, a, b in [("2z",2.0**20,1),("2z",2.0**-10,1),("2f",1,2.0**10),("2f",1,2.0**-20),("10z",1e3,1),("10z",1e-6,1),("10f",1,1e3),("10f",1,1e-6),("rev",1,1)]:
              if kind=="rev": d = DataSet(f0[::-1].copy(), Z0[::-1].copy())
              else: d = DataSet(f0*b, Z0*a)
              r = perform_kramers_kronig_test(d, **kw); n+=1
              scale = max(np.max(np.abs(r0.residuals)), 1e-300)
              dev = float(np.max(np.abs(r.residuals - r0.residuals))/scale)
              devchi = abs(r.pseudo_chisqr/r0.pseudo_chisqr-1)
              key=(kind, test.endswith("inv"), num_RC)
              w = worst.get(key,(0,0))
              worst[key]=(max(w[0],dev), max(w[1],devchi))
print(n, time.time()-t)
for k,v in sorted(worst.items()): print(k, f"{v[0]:.2e} {v[1]:.2e}")
