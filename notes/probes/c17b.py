import warnings, time
warnings.simplefilter("ignore")
import numpy as np
from pyimpspec import *
from pyimpspec.analysis.kramers_kronig import evaluate_log_F_ext
import pyimpspec.analysis.kramers_kronig.algorithms.utility.cubic as cubic
menus = {"zeros": lambda *a: np.zeros(4), "ones": lambda *a: np.ones(4), "neg": lambda *a: -np.ones(4)*5, "big": lambda *a: np.array([1e3,-1e3,1e3,-1e3]), "mixed": lambda *a: np.array([0.3,-2.0,0.01,7.0]),
         "rng1": None, "rng2": None}
orig = cubic.normal
for ident in ["CIRCUIT_1","CIRCUIT_3","CIRCUIT_5","CIRCUIT_2"]:
  for nF in (10, 20):
    d = generate_mock_data(ident, noise=0.1, seed=3)[0]
    outs={}
    for name, fn in menus.items():
        if fn is None:
            np.random.seed(1 if name=="rng1" else 2); cubic.normal = orig
        else: cubic.normal = fn
        t=time.time()
        ev = evaluate_log_F_ext(d, num_F_ext_evaluations=nF, num_procs=1)
        best = ev[0]
        outs[name]=(best[0], len(ev), tuple(round(e[0],12) for e in ev[:3]), best[1][0].pseudo_chisqr)
    vals = set(outs.values())
    print(ident, nF, "distinct outcomes:", len(vals), f"{time.time()-t:.1f}s/run")
    if len(vals)>1:
        for k,v in outs.items(): print("   ", k, v)
cubic.normal = orig
