import itertools, time, collections, warnings, sys
warnings.simplefilter("ignore")
from pyimpspec import parse_cdc
from pyimpspec.exceptions import ParsingError, TokenizingError
atoms = ["R","Tlm","(",")","[","]","{","}","=",",",":","/","%","!","1","1F","inf","short","X_1","lbl","-"," ","V"]
stats = collections.Counter(); examples = {}
t=time.time(); n=0
N=int(sys.argv[1])
for seq in itertools.product(atoms, repeat=N):
    s = "".join(seq); n+=1; e=None
    try:
        c = parse_cdc(s); k="ok"
    except (ParsingError, TokenizingError) as e1: k="lib"
    except ValueError as e2: e=e2; k="ValueError:"+str(e)[:25]
    except Exception as e3: e=e3; k=type(e).__name__+":"+str(e)[:25]
    stats[k]+=1
    if k not in ("ok","lib") and len(examples.setdefault(k,[]))<4: examples[k].append((s, str(e)[:100]))
print(n, time.time()-t)
for k,v in stats.items(): print(v, k)
for k,v in examples.items():
    print(k)
    for x in v: print("   ", x)
