import warnings, itertools, os, collections, cmath, math
warnings.simplefilter("ignore")
import numpy as np
from pyimpspec import parse_data
D="/tmp/exp/files"
def spec(n, seed):
    rs=np.random.RandomState(seed)
    f = np.logspace(4, -1, n) if n>1 else np.array([10.0])
    Z = (rs.uniform(-1,1,n)+1j*rs.uniform(-1,1,n))*10.0**rs.uniform(-6,6,n)
    return f, Z
def w(name, text, enc="utf-8"):
    p=os.path.join(D,name); open(p,"w",encoding=enc).write(text); return p
res=collections.Counter(); ex={}
def check(tag, path, sweeps, rtol=1e-12, **kw):
    try:
        ds = parse_data(path, **kw)
    except Exception as e:
        res[tag+":"+type(e).__name__]+=1; ex.setdefault(tag+":"+type(e).__name__, (path, str(e)[:80])); return
    if len(ds)!=len(sweeps): res[tag+":count"]+=1; ex.setdefault(tag+":count",(path,len(ds),len(sweeps))); return
    for d,(f,Z) in zip(ds,sweeps):
        o=np.argsort(-f)
        if not (np.allclose(d.get_frequencies(), f[o], rtol=rtol) and np.allclose(d.get_impedances(), Z[o], rtol=rtol, atol=0)):
            res[tag+":values"]+=1; ex.setdefault(tag+":values",(path, d.get_impedances()[:2], Z[o][:2])); return
    res[tag+":ok"]+=1
for n in (1,2,3,7):
  for nsw in (1,2,3):
    for asc in (False,True):
        sweeps=[spec(n, 10*n+k) for k in range(nsw)]
        rows=[]; 
        for f,Z in sweeps:
            idx = range(n-1,-1,-1) if asc else range(n)
            rows += [(float(f[i]),complex(Z[i])) for i in idx]
        # cartesian csv
        txt="f (Hz),Re(Z) (ohm),-Im(Z) (ohm)\n"+"\n".join(f"{f!r},{z.real!r},{-z.imag!r}" for f,z in rows)
        check(f"csv n={n} sw={nsw} asc={asc}", w("a.csv",txt), sweeps)
        # polar degrees
        txt="Freq,|Z|,-Phase (deg)\n"+"\n".join(f"{f!r},{abs(z)!r},{-math.degrees(cmath.phase(z))!r}" for f,z in rows)
        check(f"polar n={n} sw={nsw} asc={asc}", w("b.csv",txt), sweeps, rtol=1e-9)
        # mpt
        hdr="EC-Lab ASCII FILE\nNb header lines : 4\n\nfreq/Hz\tRe(Z)/Ohm\t-Im(Z)/Ohm\t|Z|/Ohm\tPhase(Z)/deg\n"
        txt=hdr+"\n".join(f"{f:.7E}\t{z.real:.7E}\t{-z.imag:.7E}\t{abs(z):.7E}\t{math.degrees(cmath.phase(z)):.7E}" for f,z in rows)+"\n"
        check(f"mpt n={n} sw={nsw} asc={asc}", w("c.mpt",txt,"latin1"), sweeps, rtol=1e-6)
        if nsw==1:
            f,Z=sweeps[0]; idx=list(range(n-1,-1,-1) if asc else range(n)); f=[float(x) for x in f]; Zl=[complex(x) for x in Z]; Z=Zl
            txt="meta\nmeta\nmeta\nmeta\n\n%d\n"%n+"\n".join(f"{f[i]!r} {Z[i].real!r} {Z[i].imag!r}" for i in idx)+"\n"
            check(f"i2b n={n} asc={asc}", w("d.i2b",txt), sweeps)
            txt="Procedure : t\nDD\nDescription\nt = 1 s\n f/Hz \t Z'/Ohm \t -Z''/Ohm \t time/s \t Edc/V \t Idc/A \t\n %d \n"%n+"\n".join(f" {f[i]:.9e}\t {Z[i].real:.9e}\t {-Z[i].imag:.9e}\t 1.0\t 0.1\t 1e-8\t" for i in idx)+"\n"
            check(f"P00 n={n} asc={asc}", w("e.P00",txt), sweeps, rtol=1e-8)
            txt="VERSION8.0\n %d\n 1\n"%n+"".join(f" {f[i]!r}\n {Z[i].real!r}\n {-Z[i].imag!r}\n 0.0\n 0.0\n 0.0\n 0.0\n 0.0\n 0.0\n" for i in idx)
            check(f"dfr n={n} asc={asc}", w("f.dfr",txt), sweeps)
            txt="ZPLOT2 ASCII\n  Measured Data\n  Freq(Hz)\tAmpl\tBias\tTime(Sec)\tZ'(a)\tZ''(b)\tGD\tErr\tRange\nEnd Comments\n"+"\n".join(f"{f[i]:.9E}\t0\t0\t0\t{Z[i].real:.9E}\t{Z[i].imag:.9E}\t0\t0\t0" for i in idx)+"\n"
            check(f"z n={n} asc={asc}", w("g.z",txt), sweeps, rtol=1e-8)
            txt="EXPLAIN\nTAG\tEISPOT\nZCURVE\tTABLE\n\tPt\tTime\tFreq\tZreal\tZimag\tZsig\tZmod\tZphz\tIdc\tVdc\tIERange\n\t#\ts\tHz\tohm\tohm\tV\tohm\t°\tA\tV\t#\n"+"\n".join(f"\t{j}\t0\t{f[i]!r}\t{Z[i].real!r}\t{Z[i].imag!r}\t1\t{abs(Z[i])!r}\t0\t0\t0\t8".replace(".",",") for j,i in enumerate(idx))+"\n"
            check(f"dta n={n} asc={asc}", w("h.dta",txt,"latin1"), sweeps)
bad={k:v for k,v in res.items() if not k.endswith(":ok")}
print(sum(res.values()), "ok", sum(v for k,v in res.items() if k.endswith(":ok")))
for k,v in bad.items(): print(v,k, ex.get(k))
