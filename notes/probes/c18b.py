import warnings, time, collections, itertools, traceback
warnings.simplefilter("ignore")
import numpy as np
from pyimpspec import *
import pyimpspec.progress as progress
from pyimpspec.exceptions import *
from pyimpspec.analysis.zhit import weights as W
from scipy.signal import windows as sw
from inspect import signature
# emulate the planned fix
for name in dir(sw):
    if name.startswith("_"): continue
    fn = getattr(sw, name)
    if not callable(fn): continue
    try: sig = signature(fn)
    except Exception: continue
    ps = [p for p in sig.parameters.values() if p.kind != p.KEYWORD_ONLY]
    if [p.name for p in ps] == ["M","sym"]: W._WINDOW_FUNCTIONS[name]=fn
print(len(W._WINDOW_FUNCTIONS), sorted(W._WINDOW_FUNCTIONS)[:6])
events=[]
progress.register(lambda *a, **k: events.append((k.get("progress"), k.get("message"))))
LIB=(KramersKronigError, ZHITError, DRTError, FittingError)
def classify(fn):
    events.clear()
    try:
        fn(); return "ok"
    except LIB as e: return "lib:"+type(e).__name__
    except (TypeError, ValueError) as e:
        tb = traceback.extract_tb(e.__traceback__)
        site = [f"{x.filename.split('/')[-1]}:{x.name}" for x in tb if "pyimpspec" in x.filename][-1]
        return ("upfront:" if len(events)==0 else "MIDWAY:")+type(e).__name__+"@"+site+":"+str(e)[:50]
    except Exception as e:
        tb = traceback.extract_tb(e.__traceback__)
        site = [f"{x.filename.split('/')[-1]}:{x.name}" for x in tb if "pyimpspec" in x.filename][-1]
        return "OTHER:"+type(e).__name__+"@"+site+":"+str(e)[:50]
c = parse_cdc("R{R=100}(R{R=200}C{C=1e-5})(R{R=300}C{C=1e-3})")
out = collections.Counter()
t0=time.time()
for n in (1,2,3,5,12):
    f = np.logspace(4,-1,n) if n>1 else np.array([10.0])
    d = simulate_spectrum(c, f)
    # zhit
    for sm, ip, adm, win, (m,p), wts in itertools.product(["none","lowess","modsinc","savgol","whithend","auto"], ["akima","makima","cubic","pchip","auto"], [False,True], ["auto","boxcar","bogus"], [(3,2),(5,3),(2,2),(1,1)], [None,"custom"]):
        if n>5 and (sm=="auto" and ip=="auto"): continue
        if win=="auto" and n>3: continue
        w = np.ones(n) if wts else None
        k = classify(lambda: perform_zhit(d, smoothing=sm, interpolation=ip, admittance=adm, window=win, num_points=m, polynomial_order=p, weights=w, num_procs=1))
        out[("zhit", n, k)]+=1
    # drt
    for kw in [dict(method="tr-nnls"), dict(method="tr-nnls", mode="imaginary"), dict(method="tr-nnls", lambda_value=1e-3), dict(method="tr-nnls", lambda_value=-2.0),
               dict(method="lm"), dict(method="lm", model_order=2), dict(method="lm", model_order=n+1), dict(method="lm", model_order_method="pseudo_chisqr"),
               dict(method="bht"), dict(method="tr-rbf"), dict(method="mrq-fit", circuit=parse_cdc("R(RC)")), dict(method="mrq-fit", circuit=parse_cdc("RL"))]:
        k = classify(lambda: calculate_drt(d, **kw))
        out[("drt:"+kw["method"]+":"+",".join(f"{a}={b}" for a,b in kw.items() if a not in("method","circuit")), n, k)]+=1
    # fit
    for meth, wt in itertools.product(["leastsq","least_squares","nelder","lbfgsb","powell","cg","bfgs","tnc","slsqp","auto"], ["modulus","proportional","unity","boukamp","auto"]):
        if (meth=="auto") != (wt=="auto"): continue
        k = classify(lambda: fit_circuit(parse_cdc("R(RC)"), d, method=meth, weight=wt, num_procs=1, max_nfev=50))
        out[("fit", n, k)]+=1
print(time.time()-t0)
for k,v in sorted(out.items(), key=lambda kv: (kv[0][0], kv[0][1], kv[0][2])): 
    if not k[2].startswith(("ok","upfront","lib")): print(v, k)
print("---- ok/upfront/lib summary")
s = collections.Counter()
for k,v in out.items(): s[(k[0].split(":")[0], k[1], k[2].split(":")[0])]+=v
for k,v in sorted(s.items()): print(v,k)
