import warnings, time, itertools, collections
warnings.simplefilter("ignore")
import numpy as np
from multiprocessing import get_context
from pyimpspec import *
def ladder(Rs, taus, ns, R0):
    s = f"R{{R={R0}}}" if R0 else ""
    for R,t,n in zip(Rs,taus,ns):
        if n==1.0: s += f"(R{{R={R}}}C{{C={t/R}}})"
        else: s += f"(R{{R={R}}}Q{{Y={t**n/R},n={n}}})"
    return parse_cdc(s)
def case(a):
    warnings.simplefilter("ignore")
    k, scale, ppd, kind, mode, lam = a
    taus_all = [3e-4, 2e-2, 1.5, 60.0][:k]
    Rs = [scale*x for x in (1.0, 2.5, 0.6, 1.8)[:k]]
    ns = [1.0]*k if kind=="RC" else [0.85,0.7,0.85,0.7][:k]
    f = np.logspace(5.5, -4, int(9.5*ppd)+1)
    out={}
    c = ladder(Rs,taus_all,ns,R0=scale*0.3); d = simulate_spectrum(c,f)
    try:
        r = calculate_drt(d, method="tr-nnls", mode=mode, lambda_value=lam)
    except Exception as e:
        return (a, {"exc": type(e).__name__+": "+str(e)[:50]})
    tau,g = r.get_drt_data(); o=np.argsort(tau); tau,g=tau[o],g[o]
    area = np.trapezoid(g, np.log(tau)); 
    pk = sorted(r.get_peaks()[0])
    out["neg"]=float(g.min()); out["area"]=area/sum(Rs)-1
    # match peaks: nearest peak ratio for each true tau (largest few peaks only)
    tp,gp = r.get_peaks(); order=np.argsort(gp)[::-1][:k]; main=sorted(np.array(tp)[order]) if len(tp)>=k else sorted(tp)
    out["npeaks"]=len(tp)
    out["peakratio"]=max(max(m/t, t/m) for m,t in zip(main,taus_all)) if len(main)==k else None
    if kind=="RC":
        c2 = ladder(Rs,taus_all,ns,R0=0); d2=simulate_spectrum(c2,f)
        try:
            r2 = calculate_drt(d2, method="lm")
            t1,g1,t2,g2 = r2.get_drt_data(); o=np.argsort(t1)
            out["lm"]=(len(t1), float(max(abs(np.array(t1)[o]/np.array(taus_all)-1))) if len(t1)==k else None, float(max(abs(np.array(g1)[o]/np.array(Rs)-1))) if len(t1)==k else None, len(t2))
        except Exception as e: out["lm"]=type(e).__name__+str(e)[:40]
    return (a,out)
if __name__=="__main__":
    cases=list(itertools.product((1,2,3,4),(0.1,10,1e3),(5,10,20),("RC","RQ"),("real","imaginary"),(1e-3,-1.0,-2.0)))
    worst=collections.defaultdict(float); bad=[]
    t=time.time()
    with get_context("fork").Pool(16) as p:
        for a,o in p.imap(case,cases,4):
            if "exc" in o: bad.append(("exc",a,o["exc"])); continue
            worst["neg"]=min(worst["neg"],o["neg"]); worst["area"]=max(worst["area"],abs(o["area"]))
            if abs(o["area"])>0.01: bad.append(("area",a,o["area"]))
            if o["peakratio"] is None: bad.append(("peakcount",a,o["npeaks"]))
            else:
                lim = 10**(1/a[2])*1.3
                worst["peak/step"]=max(worst["peak/step"], np.log10(o["peakratio"])*a[2])
                if o["peakratio"]>lim: bad.append(("peakpos",a,o["peakratio"]))
            if "lm" in o:
                if isinstance(o["lm"],str) or o["lm"][1] is None: bad.append(("lm",a,o["lm"]))
                else: worst["lm_tau"]=max(worst["lm_tau"],o["lm"][1]); worst["lm_R"]=max(worst["lm_R"],o["lm"][2]); worst["lm_ind"]=max(worst["lm_ind"],o["lm"][3])
    print(len(cases), round(time.time()-t,1), dict(worst))
    cnt=collections.Counter(b[0] for b in bad); print(cnt)
    import pickle; pickle.dump(bad, open("c13bad.pkl","wb"))
