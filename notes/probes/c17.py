import warnings, time, itertools, pickle
warnings.simplefilter("ignore")
import numpy as np
import pyimpspec
from pyimpspec import *
import pyimpspec.analysis.zhit.offset as off, pyimpspec.analysis.zhit.reconstruction as rec
class It:
    def __init__(self, res): self.res=list(res); 
    def __iter__(self): return iter(self.res)
class CP:
    order = None   # function: list -> list
    cache = {}
    def __init__(self, n): self.n=n
    def __enter__(self): return self
    def __exit__(self,*a): return False
    def imap_unordered(self, func, args):
        args = list(args)
        out=[]
        for i,a in enumerate(args):
            k=(func.__name__, i, len(args))
            if k not in CP.cache: CP.cache[k]=func(a)
            out.append(CP.cache[k])
        return It(CP.order(out))
off.Pool = CP; rec.Pool = CP
f = np.logspace(4,-1,26)
def run(data, order, **kw):
    CP.order = order
    r = perform_zhit(data, window="x", weights=np.ones(data.get_num_points()), num_procs=4, **kw)
    return (r.smoothing, r.interpolation, r.pseudo_chisqr, r.impedances.tobytes())
dR = simulate_spectrum(parse_cdc("R{R=100}"), f)
dRC = simulate_spectrum(parse_cdc("R{R=100}(R{R=200}C{C=1e-4})"), f)
for name,d in [("R",dR),("R(RC)",dRC)]:
    CP.cache.clear()
    t=time.time()
    a = run(d, lambda x: x, smoothing="auto")
    t1=time.time()-t
    t=time.time()
    b = run(d, lambda x: x[::-1], smoothing="auto")
    t2=time.time()-t
    ser = perform_zhit(d, window="x", weights=np.ones(26), num_procs=1, smoothing="auto")
    print(name, "inorder", a[:3], "reversed", b[:3], "serial", ser.smoothing, ser.pseudo_chisqr, "same numbers", a[3]==b[3], f"first {t1:.2f}s memo {t2:.3f}s")
