import warnings
warnings.simplefilter("ignore")
import numpy as np
from pyimpspec import *
def check(label, data, r, circuit_attr=True):
    f = data.get_frequencies(); Z = data.get_impedances()
    out = []
    out.append(("freq", np.array_equal(r.frequencies, f)))
    res = (Z - r.impedances)/np.abs(Z)
    out.append(("resid", np.allclose(r.residuals, res, rtol=1e-9, atol=1e-12)))
    chi = float(np.sum(np.abs(res)**2))
    out.append(("chisqr", bool(np.isclose(r.pseudo_chisqr, chi, rtol=1e-6)), r.pseudo_chisqr, chi))
    if hasattr(r, "circuit") and r.circuit is not None:
        out.append(("circuitZ", np.allclose(r.circuit.get_impedances(f), r.impedances, rtol=1e-9)))
    print(label, out)
base = generate_mock_data("CIRCUIT_1", noise=0.05, seed=1)[0]
f = base.get_frequencies(None); Z = base.get_impedances(None).copy()
mask = {3: True, 10: True, 40: True}
Z2 = Z.copy(); 
for i in mask: Z2[i] = 1e6*(1+1j)
data = DataSet(f, Z2, mask=mask)
for test in ["real","complex","imaginary","real-inv","complex-inv","imaginary-inv"]:
    for adm in (False, True):
        r = perform_kramers_kronig_test(data, test=test, num_RC=8, num_F_ext_evaluations=0, admittance=adm)
        check(f"KK {test} adm={adm}", data, r)
w = np.ones(data.get_num_points())
for adm in (False, True):
    r = perform_zhit(data, window="x", weights=w, admittance=adm)
    check(f"zhit adm={adm}", data, r)
# negative-real admittance case
c = parse_cdc("R{R=-100}(R{R=50}C{C=1e-4})L{L=1e-3}")
fz = np.logspace(4,-1,31)
try:
    d2 = simulate_spectrum(c, fz); print(min((1/d2.get_impedances()).real))
    r = perform_zhit(d2, window="x", weights=np.ones(31), admittance=True)
    check("zhit adm=True negY", d2, r)
except Exception as e: print("EXC", type(e).__name__, e)
for m, kw in [("tr-nnls", {}), ("tr-nnls", {"mode":"imaginary"}), ("lm", {}), ("bht", {})]:
    r = calculate_drt(data, method=m, **kw); check(f"drt {m} {kw}", data, r)
cc = parse_cdc("R{R=90}(R{R=180}C{C=1e-6})(R{R=600}W{Y=5e-4})")
r = fit_circuit(cc, data, method="leastsq", weight="boukamp", num_procs=1); check("fit", data, r)
r2 = calculate_drt(data, method="mrq-fit", circuit=parse_cdc("R(RC)(RQ)")); check("mrq", data, r2)
