import warnings
warnings.simplefilter("ignore")
import numpy as np
from pyimpspec import *
d0 = generate_mock_data("CIRCUIT_3", noise=0.1, seed=7)[0]
f0 = d0.get_frequencies(); Z0 = d0.get_impedances()
print(f0.max(), f0.min(), len(f0))
for test in ["real","complex","imaginary","real-inv","complex-inv","imaginary-inv"]:
  for adm in (False,True):
    kw = dict(test=test, num_RC=10, add_capacitance=True, add_inductance=True, admittance=adm, num_F_ext_evaluations=0, log_F_ext=0.0)
    r0 = perform_kramers_kronig_test(d0, **kw)
    row=[]
    for b in (1e-6,1e-4,1e-3,1e-2,1e-1,1e1,1e2,1e3,1e4,1e6):
        r = perform_kramers_kronig_test(DataSet(f0*b, Z0), **kw)
        row.append(f"{abs(r.pseudo_chisqr/r0.pseudo_chisqr-1):.1e}")
    print(test, adm, f"chi0={r0.pseudo_chisqr:.2e}", row)
# which variable changes
for b in (1, 1e6):
    r = perform_kramers_kronig_test(DataSet(f0*b, Z0), test="real", num_RC=10, admittance=False, num_F_ext_evaluations=0)
    print(b, r.pseudo_chisqr, r.get_series_capacitance() if hasattr(r,'get_series_capacitance') else None, r.circuit.to_string(3)[-120:])
