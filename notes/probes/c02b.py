import warnings, itertools, time
warnings.simplefilter("ignore")
import numpy as np, sympy as sp, mpmath as mp
from pyimpspec import get_elements
mp.mp.dps = 50
els = get_elements(private=True)
fs = np.logspace(-6, 9, 16)
def grid(lo, hi, default):
    vals=set()
    if np.isfinite(lo) and np.isfinite(hi) and hi<=1.0 and lo>=0.0: vals |= {0.25,0.5,0.8,1.0}
    else:
        for m in (1e-3,1.0,1e3):
            v=default*m
            if lo<=v<=hi: vals.add(v)
    vals.add(default); return sorted(vals)
def ulp_perturb(x, k): return float(np.nextafter(x, np.inf)) if k>0 else float(np.nextafter(x, -np.inf))
for sym in ["Tlmbo","Tlmbq","Wo","Ws","Ls","Tlmno","H"]:
    C = els[sym]; d=C.get_default_values(); lo=C.get_default_lower_limits(); hi=C.get_default_upper_limits(); keys=list(d)
    expr = sp.sympify(C._equation); fsym=sp.Symbol("f")
    lam_np = sp.lambdify([fsym]+[sp.Symbol(k) for k in keys], expr, modules="numpy")
    lam_mp = sp.lambdify([fsym]+[sp.Symbol(k) for k in keys], expr, modules="mpmath")
    cnt=dict(points=0, firstpass_fail=0, illcond=0, genuine=0); worst=(0,None); t=time.time()
    for combo in itertools.product(*[grid(lo[k],hi[k],d[k]) for k in keys]):
        e = C(**dict(zip(keys, combo)))
        try: Zn = e.get_impedances(fs)
        except Exception: continue
        Zs = np.array(lam_np(fs.astype(complex), *combo), dtype=complex)*np.ones_like(fs)
        for i,f in enumerate(fs):
            cnt["points"]+=1
            if not np.isfinite(Zs[i]): continue
            rel = abs(Zn[i]-Zs[i])/max(abs(Zs[i]),1e-300)
            if rel <= 1e-9: continue
            cnt["firstpass_fail"]+=1
            try:
                ref = complex(lam_mp(mp.mpf(float(f)), *[mp.mpf(float(c)) for c in combo]))
                # conditioning: perturb each input by +-8 ulp (here: relative 2e-15)
                var=0.0
                for j in range(len(combo)+1):
                    for s in (1,-1):
                        args=[float(f)]+list(map(float,combo)); args[j]=args[j]*(1+s*2e-15)
                        r2 = complex(lam_mp(*[mp.mpf(a) for a in args]))
                        var=max(var, abs(r2-ref)/max(abs(ref),1e-300))
            except Exception as ex:
                cnt["illcond"]+=1; continue
            if var>1e-7: cnt["illcond"]+=1; continue
            relref = abs(Zn[i]-ref)/max(abs(ref),1e-300)
            if relref>1e-6:
                cnt["genuine"]+=1
                if relref>worst[0]: worst=(relref,(combo,f))
    print(sym, cnt, f"worst={worst}", f"{time.time()-t:.1f}s")
