import warnings, time, itertools
warnings.simplefilter("ignore")
import numpy as np
from multiprocessing import get_context
from pyimpspec import *
from pyimpspec.mock_data import _definitions
ids = [d.get_identifier() for d in _definitions]
def case(a):
    ident, noise, seed = a
    warnings.simplefilter("ignore")
    t=time.time()
    try:
        d = generate_mock_data(ident, noise=noise, seed=seed)[0]
        r = perform_kramers_kronig_test(d, num_procs=1)
        return (ident, noise, seed, round(r.get_estimated_percent_noise()/noise,3), r.num_RC, r.admittance, float(f"{r.pseudo_chisqr:.3g}"), d.get_num_points(), round(time.time()-t,1))
    except Exception as e:
        return (ident, noise, seed, type(e).__name__, str(e)[:60])
if __name__=="__main__":
    print(ids)
    cases = list(itertools.product(ids, (0.05, 0.5), (1,2)))
    with get_context("fork").Pool(16) as p:
        for r in p.imap(case, cases): print(r)
