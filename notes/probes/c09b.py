import warnings, time, itertools
warnings.simplefilter("ignore")
import numpy as np
from pyimpspec import *
worst = {}
t=time.time(); n=0
for ident in ["CIRCUIT_1","CIRCUIT_3","CIRCUIT_5"]:
  d0 = generate_mock_data(ident, noise=0.1, seed=7)[0]
  f0 = d0.get_frequencies(); Z0 = d0.get_impedances()
  dec = np.log10(f0.max()/f0.min())
  for test in ["real","complex","imaginary","real-inv","complex-inv","imaginary-inv"]:
    for adm in (False, True):
      for addC in (False,True):
        for addL in ((True,) if test.endswith("inv") else (False,True)):
          for num_RC in (3, 8, int(3*dec)):
            for lfe in (0.0, 0.5):
              kw = dict(test=test, num_RC=num_RC, add_capacitance=addC, add_inductance=addL, admittance=adm, num_F_ext_evaluations=0, log_F_ext=lfe)
              r0 = perform_kramers_kronig_test(d0, **kw)
              for kind, a, b in [("2z",2.0**20,1),("2z",2.0**-20,1),("2f",1,2.0**20),("2f",1,2.0**-20),("10z",1e6,1),("10z",1e-6,1),("10f",1,1e6),("10f",1,1e-6)]:
                  d = DataSet(f0*b, Z0*a)
                  r = perform_kramers_kronig_test(d, **kw); n+=1
                  scale = np.max(np.abs(r0.residuals))
                  dev = float(np.max(np.abs(r.residuals - r0.residuals))/scale)
                  devchi = abs(r.pseudo_chisqr/r0.pseudo_chisqr-1)
                  key=(kind[-1], "inv" if test.endswith("inv") else "lsq", adm, addC or addL)
                  w = worst.get(key,(0,0,None))
                  if dev>w[0]: worst[key]=(dev, max(w[1],devchi), (ident,test,num_RC,lfe,addC,addL,a,b))
                  else: worst[key]=(w[0], max(w[1],devchi), w[2])
print(n, time.time()-t)
for k,v in sorted(worst.items()): print(k, f"{v[0]:.2e} {v[1]:.2e}", v[2])
