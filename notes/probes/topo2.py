import warnings, itertools, time, collections, math, re
warnings.simplefilter("ignore")
import numpy as np
exec(open("topo.py").read().split("fs = np.array")[0])
import matplotlib; matplotlib.use("Agg")
import matplotlib.pyplot as plt
stats=collections.Counter(); ex={}
t0=time.time(); n=0
PAL2=["R","C","Q","Tlm"]
def objonly(L):
    # object-only extras: single-child wrappers and same-kind nesting
    yield ('P', ('L',))
    yield ('S', ('S', ('L',), ('L',)), ('L',))
    yield ('P', ('P', ('L',), ('L',)), ('L',))
    yield ('S', ('P', ('L',)), ('L',))
    yield ('P', ('S', ('L',)), ('L',))
for L in (1,2,3,4):
    shapes = top(L) + (list(objonly(L)) if L==3 else [])
    for t in shapes:
        LL = leaves(t)
        fills = itertools.product(PAL2, repeat=LL) if LL<=3 else [tuple(PAL2[(i+j)%4] for i in range(LL)) for j in range(4)]
        for fill in fills:
            obj = build(t, iter(fill)); c = Circuit(obj if isinstance(obj,Series) else Series([obj])); n+=1
            nel = len(c.get_elements())
            for name, fn in [("sympy", lambda: c.to_sympy()), ("subst", lambda: c.to_sympy(substitute=True)), ("latex", lambda: c.to_latex()),
                             ("tikz", lambda: c.to_circuitikz()), ("tikz_run", lambda: c.to_circuitikz(running=True)), ("draw", lambda: c.to_drawing())]:
                try:
                    o = fn()
                    if name=="tikz":
                        comps_ = re.findall(r"to\[(\w+)=\$", o)
                        if len(comps_)!=nel: stats["tikz-count-mismatch"]+=1; ex.setdefault("tikz-count", (c.to_string(), len(comps_), nel))
                    if name=="draw": plt.close("all")
                    if name=="sympy":
                        nsym = len(o.free_symbols - {__import__("sympy").Symbol("f")})
                        ids = c.generate_element_identifiers(running=True)
                        npar = sum(len(e.get_values()) for e in ids)
                        if nsym!=npar: stats["sympy-symbol-count"]+=1; ex.setdefault("symcount",(c.to_string(), nsym, npar, sorted(map(str,o.free_symbols))))
                    stats[name+":ok"]+=1
                except Exception as e:
                    k=f"{name}:{type(e).__name__}"; stats[k]+=1; ex.setdefault(k,(c.to_string(), t, str(e)[:80]))
print(n, round(time.time()-t0,1)); 
for k,v in sorted(stats.items()): print(v,k)
for k,v in ex.items(): print(k,v)
