import warnings, itertools, collections, math
warnings.simplefilter("ignore")
from pyimpspec import *
from pyimpspec.circuit.elements import *
inf=math.inf
# element specs: (symbol, {param:(value, lower, upper, fixed)}, label)
def E(sym, params, label=""): return dict(sym=sym, params=params, label=label)
def fmtnum(x, d):
    if math.isinf(x): return "inf"
    return f"%.{d}E" % x
def spell_param(k, v, lo, hi, fx, sw, d):
    s = f"{k}={fmtnum(v,d)}" + (sw["F"] if fx else "")
    form = sw["limits"]
    if form=="full": s += f"/{fmtnum(lo,d)}/{fmtnum(hi,d)}"
    elif form=="lo": s += f"/{fmtnum(lo,d)}"
    elif form=="hi": s += f"//{fmtnum(hi,d)}"
    elif form=="pct":
        if v!=0 and not math.isinf(lo) and not math.isinf(hi): s += f"/{lo/v*100:.12g}%/{hi/v*100:.12g}%"
        else: s += f"/{fmtnum(lo,d)}/{fmtnum(hi,d)}"
    return s
def spell(e, sw, d=12):
    items=[spell_param(k,*p,sw,d) for k,p in e["params"].items()]
    if sw["rev"]: items.reverse()
    body=",".join(items)
    ws = " " if sw["ws"] else ""
    s = e["sym"]+ws+"{"+ws+body.replace(",", ws+","+ws).replace("=", ws+"="+ws).replace("/", ws+"/"+ws)
    if e["label"]: s+= ws+":"+ws+e["label"]
    return s+ws+"}"
def expected(e, sw, d, cls):
    out={}
    for k,(v,lo,hi,fx) in e["params"].items():
        pv = float(fmtnum(v,d)) 
        dl, du = cls.get_default_lower_limit(k), cls.get_default_upper_limit(k)
        form=sw["limits"]
        plo = float(fmtnum(lo,d)) if not math.isinf(lo) else lo
        phi = float(fmtnum(hi,d)) if not math.isinf(hi) else hi
        if form=="none": elo, ehi = dl, du
        elif form=="lo": elo, ehi = plo, du
        elif form=="hi": elo, ehi = dl, phi
        else: elo, ehi = plo, phi
        out[k]=(pv, elo, ehi, fx)
    return out
specs = [
 (Resistor, E("R", {"R":(50.0, 0.0, inf, False)})),
 (Resistor, E("R", {"R":(50.0, 10.0, 200.0, True)}, "a b")),
 (Resistor, E("R", {"R":(-5.0, -inf, 0.5, False)})),
 (Capacitor, E("C", {"C":(2e-6, 1e-9, 1e-3, False)})),
 (Capacitor, E("C", {"C":(2e4, 1e4, 1e5, False)})),
 (ConstantPhaseElement, E("Q", {"Y":(3e-5, 1e-24, 1e6, False), "n":(0.5, 0.25, 1.0, True)}, "x_1")),
 (KramersKronigRC, E("K", {"R":(-2.0, -inf, inf, False), "tau":(1e-3, -inf, inf, True)})),
]
stats=collections.Counter(); ex={}
for cls, e in specs:
    for limits, F, rev, ws, hdr, outer, d in itertools.product(["full","lo","hi","pct","none"], ["F","f"], [False,True], [False,True], ["","!V=1!","!v=1!"], [False,True], [1,3,12,17]):
        sw=dict(limits=limits,F=F,rev=rev,ws=ws)
        s = spell(e, sw, d)
        if outer: s="["+s+"]"
        s = hdr+s
        exp = expected(e, sw, d, cls)
        try:
            c = parse_cdc(s); el = c.get_elements()[0]
        except Exception as ex_:
            k=f"{type(ex_).__name__}"; stats[k]+=1; ex.setdefault((k, cls.__name__, limits), (s, str(ex_)[:70])); continue
        ok=True; why=""
        for k_,(pv,elo,ehi,fx) in exp.items():
            got=(el.get_value(k_), el.get_lower_limit(k_), el.get_upper_limit(k_), el.is_fixed(k_))
            tol = 1e-11 if limits=="pct" else 0
            def close(a,b): return a==b or (tol and abs(a-b)<=tol*max(abs(a),abs(b)))
            if not (close(got[0],pv) and close(got[1],elo) and close(got[2],ehi) and got[3]==fx): ok=False; why=f"{k_}: got {got} exp {(pv,elo,ehi,fx)}"
        if el.get_label()!=e["label"]: ok=False; why=f"label {el.get_label()!r}"
        if type(el) is not cls: ok=False; why="class"
        k = "ok" if ok else "MISMATCH"
        stats[k]+=1
        if not ok: ex.setdefault((k, cls.__name__, limits), (s, why))
print(stats)
for k,v in ex.items(): print(k, v)
