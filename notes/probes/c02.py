import warnings, itertools, time
import numpy as np, sympy as sp
from pyimpspec import get_elements
warnings.simplefilter("ignore")
els = get_elements(private=True)
fs = np.logspace(-6, 9, 16)
def grid(lo, hi, default):
    # candidate values inside the limit box
    vals = set()
    if np.isfinite(lo) and np.isfinite(hi) and hi <= 1.0 and lo >= 0.0:   # exponent
        vals |= {0.25, 0.5, 0.75, 1.0}
    else:
        for m in (1e-3, 1.0, 1e3):
            v = default*m
            if lo <= v <= hi: vals.add(v)
    vals.add(default)
    return sorted(vals)
t0=time.time()
for sym, C in els.items():
    if sym == "Tlm": continue
    d = C.get_default_values(); lo = C.get_default_lower_limits(); hi = C.get_default_upper_limits()
    keys = list(d)
    expr = sp.sympify(C._equation)
    fsym = sp.Symbol("f")
    lam = sp.lambdify([fsym]+[sp.Symbol(k) for k in keys], expr, modules="numpy")
    worst = 0; worstp=None; n=0; bad=0
    for combo in itertools.product(*[grid(lo[k],hi[k],d[k]) for k in keys]):
        e = C(**dict(zip(keys, combo)))
        try:
            Zn = e.get_impedances(fs)
        except Exception as ex:
            bad+=1; continue
        Zs = np.array(lam(fs.astype(complex), *combo), dtype=complex)*np.ones_like(fs)
        ok = np.isfinite(Zs)
        rel = np.abs(Zn-Zs)[ok]/np.maximum(np.abs(Zs[ok]),1e-300)
        n+=1
        if rel.size and rel.max()>worst: worst=rel.max(); worstp=combo
    print(f"{sym:6s} n={n:4d} raised={bad:3d} worst_rel={worst:.3g} at {worstp}")
print(time.time()-t0)
