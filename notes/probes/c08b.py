import warnings, time, itertools, hashlib
warnings.simplefilter("ignore")
import numpy as np
from pyimpspec import *
from pyimpspec.analysis.kramers_kronig import evaluate_log_F_ext
base = generate_mock_data("CIRCUIT_1", noise=0.1, seed=1, num_per_decade=4)[0]
f = base.get_frequencies(None); Z = base.get_impedances(None)
n=len(f); print(n)
def dig(r):
    h=hashlib.sha1()
    for a in ("frequencies","impedances","residuals"):
        h.update(np.ascontiguousarray(getattr(r,a)).tobytes())
    h.update(repr(float(r.pseudo_chisqr)).encode())
    return h.hexdigest()[:12]
entries = {
 "kk_real": lambda d: perform_kramers_kronig_test(d, num_RC=6, num_F_ext_evaluations=0, admittance=False),
 "kk_auto": lambda d: perform_kramers_kronig_test(d, num_procs=1),
 "zhit": lambda d: perform_zhit(d, window="x", weights=np.ones(d.get_num_points()), num_procs=1),
 "nnls": lambda d: calculate_drt(d, method="tr-nnls"),
 "lm": lambda d: calculate_drt(d, method="lm"),
 "fit": lambda d: fit_circuit(parse_cdc("R{R=90}(R{R=180}C{C=1e-6})(R{R=600}W{Y=5e-4})"), d, method="leastsq", weight="boukamp", num_procs=1),
}
masks = [(), (0,), (n-1,), (3,), (0,n-1), (3,9)]
for name, fn in entries.items():
    res=[]
    for m in masks:
        for order in ("desc","asc"):
            for payload in (None, 1e12*(1+1j), float("nan")):
                Zm = Z.copy()
                if payload is not None:
                    for i in m: Zm[i]=payload
                elif m==(): pass
                ff, zz = (f, Zm) if order=="desc" else (f[::-1].copy(), Zm[::-1].copy())
                mk = {i: True for i in m} if order=="desc" else {n-1-i: True for i in m}
                try:
                    d = DataSet(ff, zz, mask=dict(mk))
                    # note: asc+mask is known-broken on unchanged tree; emulate fix by set_mask after construction
                    if order=="asc": d = DataSet(ff, zz); d.set_mask({i: True for i in m})
                    keep = [i for i in range(n) if i not in m]
                    dref = DataSet(f[keep], Z[keep])
                    a = dig(fn(d)); b = dig(fn(dref))
                    res.append(a==b)
                    if a!=b: print("   DIFF", name, m, order, payload)
                except Exception as e:
                    res.append(f"{type(e).__name__}:{str(e)[:50]}"); print("   EXC", name, m, order, payload, res[-1])
    print(name, sum(1 for r in res if r is True), "/", len(res))
