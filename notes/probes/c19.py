import warnings, io, sys, contextlib, json, itertools, collections
warnings.simplefilter("ignore")
import numpy as np, pandas as pd
from pyimpspec import *
import pyimpspec.cli as cli
def run(argv):
    buf=io.StringIO(); old=sys.argv
    sys.argv=["pyimpspec"]+argv
    try:
        with contextlib.redirect_stdout(buf): cli.main()
    finally: sys.argv=old
    return buf.getvalue()
res=collections.Counter(); ex={}
spec="CIRCUIT_1:noise=0.1,seed=3,num_per_decade=3"
for fmt, lpf, hpf, ei in itertools.product(["csv","json","md"], [None, 500.0], [None, 2.0], [None, [0,4]]):
    argv=["parse", f"<{spec}>", "--output-format", fmt, "--suppress-progress"]
    if lpf: argv+=["-lpf", str(lpf)]
    if hpf: argv+=["-hpf", str(hpf)]
    if ei: argv+=["-ei"]+[str(i) for i in ei]
    try: out=run(argv)
    except Exception as e: res[f"{fmt}:EXC:{type(e).__name__}"]+=1; ex.setdefault(fmt,(argv,str(e)[:80])); continue
    d = generate_mock_data("CIRCUIT_1", noise=0.1, seed=3, num_per_decade=3)[0]
    if lpf: d.low_pass(lpf)
    if hpf: d.high_pass(hpf)
    if ei: d.set_mask({i: True for i in ei})
    exp = d.to_dataframe()
    if fmt=="csv":
        got = pd.read_csv(io.StringIO(out), float_precision="round_trip")
        ok = got.shape==exp.shape and np.array_equal(got.values, exp.values)
    elif fmt=="json":
        got = pd.DataFrame(json.loads(out)); got.index=got.index.astype(int); got=got.sort_index()
        ok = got.shape==exp.shape and np.allclose(got.values, exp.values, rtol=1e-12)
    else:
        rows=[l for l in out.strip().splitlines() if l.startswith("|")][2:]
        got=np.array([[float(x) for x in r.strip("|").split("|")] for r in rows])
        ok = got.shape==exp.shape and np.allclose(got, exp.values, rtol=1e-3)
    res[f"{fmt}:{'ok' if ok else 'MISMATCH'}"]+=1
    if not ok: ex.setdefault(fmt+":mm",(argv, got.shape if hasattr(got,'shape') else None, exp.shape))
print(res); print(ex)
