import warnings, time, itertools, sys
warnings.simplefilter("ignore")
import numpy as np
from multiprocessing import get_context
from pyimpspec import *
fams = {
 "R(RC)": "R{R=%g}(R{R=%g}C{C=%g})",
 "R(RQ)": "R{R=%g}(R{R=%g}Q{Y=%g,n=0.85})",
 "R(RC)(RC)": "R{R=%g}(R{R=%g}C{C=%g})(R{R=%g}C{C=%g})",
 "R(RC)(RQ)": "R{R=%g}(R{R=%g}C{C=%g})(R{R=%g}Q{Y=%g,n=0.8})",
 "R(C[RW])": "R{R=%g}(C{C=%g}[R{R=%g}W{Y=%g}])",
 "RL(RQ)": "R{R=%g}L{L=%g}(R{R=%g}Q{Y=%g,n=0.9})",
}
truth = {
 "R(RC)": (100, 200, 1e-5),
 "R(RQ)": (100, 200, 1e-5),
 "R(RC)(RC)": (100, 200, 1e-6, 300, 1e-4),
 "R(RC)(RQ)": (100, 200, 1e-6, 300, 1e-4),
 "R(C[RW])": (100, 1e-6, 200, 1e-3),
 "RL(RQ)": (100, 1e-6, 200, 1e-5),
}
f = np.logspace(5,-2,71)
def case(args):
    fam, scale, pert = args
    warnings.simplefilter("ignore")
    tv = list(truth[fam])
    # scale resistances by scale, capacitances by 1/scale
    c_true = parse_cdc(fams[fam] % tuple(tv))
    for e in c_true.get_elements():
        for k,v in e.get_values().items():
            if k in ("R","L"): e.set_values(**{k: v*scale})
            elif k in ("C","Y"): e.set_values(**{k: v/scale})
    d = simulate_spectrum(c_true, f)
    c0 = parse_cdc(c_true.serialize(12))
    i=0
    for e in c0.get_elements():
        for k,v in e.get_values().items():
            if e.is_fixed(k): continue
            fac = pert if i%2==0 else 1/pert; i+=1
            if k=="n": v2 = min(1.0, max(0.5, v*(1+ (0.1 if fac>1 else -0.1))))
            else: v2 = v*fac
            e.set_values(**{k: v2})
    t=time.time()
    try:
        r = fit_circuit(c0, d, num_procs=1)
        tv_ = np.array([v for e in c_true.get_elements() for v in e.get_values().values()])
        fv_ = np.array([v for e in r.circuit.get_elements() for v in e.get_values().values()])
        return (fam, scale, pert, float(np.max(np.abs(fv_/tv_-1))), r.pseudo_chisqr, r.method, r.weight, time.time()-t)
    except Exception as ex:
        return (fam, scale, pert, type(ex).__name__, str(ex)[:80], "", "", time.time()-t)
if __name__=="__main__":
    cases = list(itertools.product(fams, (1e-2,1,1e2), (1.3, 2.0, 3.0)))
    with get_context("fork").Pool(16) as p:
        for r in p.imap(case, cases): print(r)
