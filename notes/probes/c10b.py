import warnings, time, itertools
warnings.simplefilter("ignore")
import numpy as np
from multiprocessing import get_context
from pyimpspec import *
from pyimpspec.mock_data import _definitions
valid = [d.get_identifier() for d in _definitions if not d.get_identifier().endswith("INVALID")]
def case(a):
    ident, noise, seed = a
    warnings.simplefilter("ignore")
    try:
        d = generate_mock_data(ident, noise=noise, seed=seed)[0]
        tests, sug = perform_exploratory_kramers_kronig_tests(d, num_procs=1)
        r, scores, lo, hi = sug
        return (ident, noise, seed, round(float(r.get_estimated_percent_noise()/noise),3), r.num_RC, lo, hi, lo<=r.num_RC<=hi)
    except Exception as e:
        return (ident, noise, seed, type(e).__name__, str(e)[:60])
if __name__=="__main__":
    cases = list(itertools.product(valid, (0.02, 0.2, 1.0), (0,3,4)))
    t=time.time(); out=[]
    with get_context("fork").Pool(16) as p:
        for r in p.imap_unordered(case, cases): out.append(r)
    ratios=[r[3] for r in out if isinstance(r[3], float)]
    print(len(out), round(time.time()-t), "ratio min/max", min(ratios), max(ratios))
    print("errors", [r for r in out if not isinstance(r[3], float)])
    print("out of limits", [r for r in out if isinstance(r[3], float) and not r[7]])
    print("extremes", sorted(out, key=lambda r: r[3] if isinstance(r[3],float) else 1)[:5], sorted(out, key=lambda r: -r[3] if isinstance(r[3],float) else 1)[:5])
