import warnings
warnings.simplefilter("ignore")
import numpy as np
from pyimpspec.analysis.zhit.smoothing import _smooth_phase
x = np.linspace(10, -3, 41)  # ln omega descending equally spaced
for name, y in [("const", np.full(41, -0.7)), ("linear", 0.03*x - 0.5)]:
    for sm in ["none","lowess","modsinc","savgol","whithend"]:
        for npts, order in [(3,2),(5,2),(5,3),(7,2),(9,4)]:
            try:
                out = _smooth_phase(sm, npts, order, 3, x, y.copy())
                err = np.max(np.abs(out-y))
                print(f"{name:6s} {sm:9s} m={npts} p={order} maxerr={err:.2e}")
            except Exception as e:
                print(f"{name:6s} {sm:9s} m={npts} p={order} EXC {type(e).__name__}: {str(e)[:70]}")
