import warnings, collections, time, copy
warnings.simplefilter("ignore")
import numpy as np
import pyimpspec
from pyimpspec import *
from pyimpspec.circuit import registry as reg
from pyimpspec.circuit.registry import ElementDefinition, ParameterDefinition, register_element, remove_elements, reset, reset_default_parameter_values
from pyimpspec.exceptions import ParsingError
SNAP = dict(E=dict(reg._ELEMENTS), P=dict(reg._PRIVATE_ELEMENTS), D={k: dict(c._parameter_default_value) for k,c in reg._DEFAULT_ELEMENTS.items()})
def hard_reset():
    reg._ELEMENTS.clear(); reg._ELEMENTS.update(SNAP["E"])
    reg._PRIVATE_ELEMENTS.clear(); reg._PRIVATE_ELEMENTS.update(SNAP["P"])
    for k,c in reg._DEFAULT_ELEMENTS.items():
        c._parameter_default_value.clear(); c._parameter_default_value.update(SNAP["D"][k])
def mk(tag, sym, bad=False):
    class U(Element):
        def _impedance(self, f, R): return (R*(3 if bad else 2)) + 0j*f
    U.__name__="U"+tag
    return ElementDefinition(Class=U, symbol=sym, name="n"+tag, description="d", equation="R*2", parameters=[ParameterDefinition("R","ohm","res",1.0,0.0,np.inf,False)])
DEFS = {"U1":("Ux",False), "U2":("Ux",False), "U3":("Uy",True), "U4":("R",False), "U5":("Lab",False), "U6":("r",False)}
OPS = [("reg",t,p) for t in DEFS for p in (False,True)] + [("rm",t) for t in ("U1","U2","U5")] + [("rm","Resistor")] + [("reset",e,d) for e in (True,False) for d in (True,False)] + [("setdef","Resistor"),("setdef","U1"),("resetdef",None),("resetdef","Resistor")]
PROBES = ["R","L","La","Ls","LLaLs","Ux","UxR","Uy","Lab","LabL","K"]
def replay(hist):
    hard_reset()
    classes={}
    def cls(t):
        if t not in classes: classes[t]=mk(t, *DEFS[t])
        return classes[t]
    outs=[]
    for op in hist:
        try:
            if op[0]=="reg": register_element(cls(op[1]), private=op[2])
            elif op[0]=="rm": remove_elements(Resistor if op[1]=="Resistor" else cls(op[1]).Class)
            elif op[0]=="reset": reset(elements=op[1], default_parameters=op[2])
            elif op[0]=="setdef": (Resistor if op[1]=="Resistor" else cls(op[1]).Class).set_default_values(R=5.0)
            elif op[0]=="resetdef": reset_default_parameter_values(None if op[1] is None else Resistor)
            outs.append("ok")
        except Exception as e: outs.append(type(e).__name__)
    return classes, outs
def observe(classes):
    name = lambda c: c.__name__
    o=[]
    for d_,p_ in ((False,False),(False,True),(True,False),(True,True)):
        o.append(tuple(sorted((k,name(v)) for k,v in get_elements(default_only=d_, private=p_).items())))
    o.append(Resistor.get_default_value("R"))
    pr=[]
    for s in PROBES:
        try: pr.append(tuple(type(e).__name__ for e in parse_cdc(s).get_elements()))
        except ParsingError as e: pr.append("ParsingError")
        except Exception as e: pr.append(type(e).__name__)
    o.append(tuple(pr))
    return tuple(o)
def hidden():
    return (tuple(sorted(reg._ELEMENTS)), tuple(sorted(reg._PRIVATE_ELEMENTS)), Resistor.get_default_value("R"))
# reference model
BASE_E = {k:v.__name__ for k,v in SNAP["E"].items()}; BASE_P=set(SNAP["P"])
def ref_run(hist):
    E=dict(BASE_E); P=set(BASE_P); Rdef=1000.0; outs=[]; userdef={}
    for op in hist:
        if op[0]=="reg":
            t=op[1]; sym,bad=DEFS[t]
            if sym=="r": outs.append("ValueError"); continue
            if bad: outs.append("ValueError"); continue
            if sym in E and E[sym]!="U"+t: outs.append("KeyError"); continue
            E[sym]="U"+t
            if op[2]: P.add(sym)
            outs.append("ok")
        elif op[0]=="rm":
            if op[1]=="Resistor": outs.append("ValueError"); continue
            nm="U"+op[1]
            for k in list(E):
                if E[k]==nm: del E[k]; P.discard(k); break
            outs.append("ok")
        elif op[0]=="reset":
            if op[1]: E=dict(BASE_E); P=set(BASE_P)     # ideal: privacy of user symbols cleared
            if op[2]: Rdef=1000.0
            outs.append("ok")
        elif op[0]=="setdef":
            if op[1]=="Resistor": Rdef=5.0
            outs.append("ok")
        elif op[0]=="resetdef": Rdef=1000.0; outs.append("ok")
    def view(d_,p_):
        keys = BASE_E.keys() if d_ else E.keys()
        return tuple(sorted((k,E[k]) for k in keys if k in E and (p_ or k not in P)))
    return outs, (view(False,False),view(False,True),view(True,False),view(True,True),Rdef)
seen={}; frontier=collections.deque([()]); trans=0; viol=collections.Counter(); ex={}
t=time.time(); DEPTH=3
while frontier:
    h=frontier.popleft()
    if len(h)>=DEPTH: continue
    for op in OPS:
        h2=h+(op,); classes,outs=replay(h2); ob=observe(classes); hid=hidden(); trans+=1
        routs, rob = ref_run(h2)
        if outs!=routs: viol[("outcome",op[0],outs[-1],routs[-1])]+=1; ex.setdefault(("outcome",op[0],outs[-1],routs[-1]),h2)
        if ob[:5]!=rob: 
            k=("observation",); viol[k]+=1; ex.setdefault(k,(h2,[a for a,b in zip(ob[:5],rob) if a!=b][:1],[b for a,b in zip(ob[:5],rob) if a!=b][:1]))
        key=(ob,hid)
        if key not in seen: seen[key]=h2; frontier.append(h2)
hard_reset()
print("states",len(seen),"transitions",trans,round(time.time()-t,1),"s")
for k,v in viol.items(): print(v,k,ex[k])
