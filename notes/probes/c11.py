import warnings, time, itertools
warnings.simplefilter("ignore")
import numpy as np
from multiprocessing import get_context
from pyimpspec import *
f = np.logspace(4,-2,43)
specs = {"R":"R{R=100}", "C":"C{C=1e-5}", "L":"L{L=1e-3}", "Q":"Q{Y=1e-4,n=0.8}", "W":"W{Y=1e-3}", "Q5":"Q{Y=1e-2,n=0.5}",
         "lad1":"R{R=10}(R{R=100}C{C=1e-4})", "lad2":"R{R=10}(R{R=100}Q{Y=1e-4,n=0.85})(R{R=50}C{C=1e-2})"}
def case(a):
    warnings.simplefilter("ignore")
    name, sm, ip, adm, wkind = a
    d = simulate_spectrum(parse_cdc(specs[name]), f)
    n = d.get_num_points()
    w = np.ones(n) if wkind=="ones" else np.array([1.0 if n//3 <= i < 2*n//3 else 0.0 for i in range(n)])
    t=time.time()
    try:
        r = perform_zhit(d, smoothing=sm, interpolation=ip, window="x", weights=w, admittance=adm, num_procs=1, num_points=5, polynomial_order=2)
        err = float(np.max(np.abs(np.abs(r.impedances)/np.abs(d.get_impedances())-1)))
        return (name, sm, ip, adm, wkind, err, round(time.time()-t,2))
    except Exception as e:
        return (name, sm, ip, adm, wkind, f"{type(e).__name__}: {str(e)[:60]}", 0)
if __name__=="__main__":
    cases = list(itertools.product(specs, ["none","lowess","modsinc","savgol","whithend"], ["akima","makima","cubic","pchip"], [False,True], ["ones","mid"]))
    worst={}
    with get_context("fork").Pool(16) as p:
        for r in p.imap(case, cases, 4):
            if isinstance(r[5], str): print(r); continue
            k=(r[0], r[3]); 
            if r[5] > worst.get(k,(0,))[0]: worst[k]=(r[5], r[1], r[2], r[4], r[6])
    for k,v in worst.items(): print(k, v)
