import warnings, itertools
warnings.simplefilter("ignore")
import numpy as np
from pyimpspec import *
from pyimpspec.circuit.elements import TransmissionLineModel as T
f = np.logspace(3,-2,6)
def sub(kind, val):
    if kind=="open": return None
    if kind=="short": return Series([])
    return Series([Resistor(R=val)])
def approx(kind, val):
    if kind=="open": return Series([Resistor(R=1e9)])
    if kind=="short": return Series([Resistor(R=1e-9)])
    return Series([Resistor(R=val)])
zeta = lambda: Series([ConstantPhaseElement(Y=5e-3,n=0.8)])
for x1k,x2k,zak,zbk in itertools.product(["fin","short"],["fin","short"],["fin","short","open"],["fin","short","open"]):
    if x1k=="short" and x2k=="short": continue
    e = T(X_1=sub(x1k,2.0), X_2=sub(x2k,5.0), Z_A=sub(zak,3.0), Z_B=sub(zbk,7.0), Zeta=zeta(), L=1.3)
    g = T(X_1=approx(x1k,2.0), X_2=approx(x2k,5.0), Z_A=approx(zak,3.0), Z_B=approx(zbk,7.0), Zeta=zeta(), L=1.3)
    try:
        Z = e.get_impedances(f)
    except Exception as ex:
        print(x1k,x2k,zak,zbk,"EXC",type(ex).__name__, ex); continue
    Zg = g.get_impedances(f)
    rel = np.max(np.abs(Z-Zg)/np.abs(Zg))
    # sympy agreement
    try:
        ex_ = e.to_sympy(substitute=True)
        Zs = np.array([complex(ex_.subs("f", x)) for x in f])
        rs = np.max(np.abs(Z-Zs)/np.abs(Z))
    except Exception as ex:
        rs = f"EXC {type(ex).__name__} {ex}"
    print(f"{x1k:5s} {x2k:5s} {zak:5s} {zbk:5s} general-limit rel={rel:.2e}  sympy rel={rs}")
