import warnings, itertools, os, collections
warnings.simplefilter("ignore")
import numpy as np
from pyimpspec import parse_data
f = np.array([1000.0, 100.0, 10.0, 1.0]); Z = np.array([1.5-2.5j, 10.25+0.5j, -3.0-40.0j, 1e-3+2e-4j])
def fmt(x, dec): 
    s = repr(float(x)); return s.replace(".", ",") if dec=="," else s
res = collections.Counter(); bad=[]
fa = ["frequency","freq","f"]; ra = ["z'","z re","z_re","zre","real","re"]; ia = ['z"',"z''","z im","z_im","zim","imaginary","imag","im"]
n=0
for fh, rh, ih in itertools.product(fa, ra, ia):
  for case in ("lower","upper","title"):
    for neg in ("", "-", "−"):
      for sep in (",", "\t", ";", " "):
        for dec in (".", ","):
          if dec=="," and sep==",": continue
          hs = [fh+" (Hz)", neg+rh+" (ohm)" if False else rh+" (ohm)", neg+ih+" (ohm)"]
          if sep in (" ",";"): hs=[h.replace(" (Hz)","(Hz)").replace(" (ohm)","(ohm)") for h in hs]
          if sep==" " and any(" " in h for h in hs): continue
          hs = [getattr(h,case)() for h in hs]
          rows=[sep.join(hs)]
          for a,b in zip(f,Z):
              rows.append(sep.join([fmt(a,dec), fmt(b.real,dec), fmt(-b.imag if neg else b.imag, dec)]))
          p="/tmp/exp/files/t.csv"; open(p,"w").write("\n".join(rows)+"\n"); n+=1
          try:
              ds = parse_data(p)
              ok = len(ds)==1 and np.allclose(ds[0].get_frequencies(),f) and np.allclose(ds[0].get_impedances(),Z)
              k = "ok" if ok else "WRONG"
          except Exception as e:
              k = f"{type(e).__name__}"
          res[k]+=1
          if k!="ok" and len(bad)<25: bad.append((k, hs, repr(sep), dec))
print(n, res)
for b in bad: print(b)
