import itertools, time, collections, warnings
warnings.simplefilter("ignore")
from pyimpspec import parse_cdc
from pyimpspec.exceptions import ParsingError, TokenizingError
atoms = ["R","C","Tlm","(",")","[","]","{","}","=",",",":","/","%","!","1","-1","1e","1.5F","inf","short","open","X_1","R=", "lbl", "-", " ", "V"]
stats = collections.Counter(); examples = {}
t=time.time(); n=0
for N in range(0,4):
    for seq in itertools.product(atoms, repeat=N):
        s = "".join(seq); n+=1
        e=None
        try:
            c = parse_cdc(s); k="ok"
        except (ParsingError, TokenizingError) as e: k="lib"
        except ValueError as e2: e=e2; k="ValueError"
        except Exception as e3: e=e3; k=type(e).__name__
        stats[k]+=1
        if k not in ("ok","lib") and len(examples.setdefault(k,[]))<8: examples[k].append((s, str(e)[:80]))
print(n, time.time()-t, stats)
for k,v in examples.items():
    print(k)
    for x in v: print("   ", x)
