import warnings, time, itertools, collections
warnings.simplefilter("ignore")
import numpy as np
from multiprocessing import get_context
from pyimpspec import *
from pyimpspec.analysis.fitting import _METHODS, _WEIGHT_FUNCTIONS
f = np.logspace(4,-1,26)
truth = parse_cdc("R{R=100}(R{R=200}Q{Y=1e-5,n=0.85})(R{R=300}C{C=1e-3})")
data = simulate_spectrum(truth, f)
def case(a):
    warnings.simplefilter("ignore")
    meth, wt, box, fixed = a
    c = parse_cdc("R{R=130}(R{R=150}Q{Y=2e-5,n=0.8})(R{R=400}C{C=5e-4})")
    els = c.get_elements()
    if box=="tight_in":
        els[1].set_lower_limits(R=150.0).set_upper_limits(R=250.0)
    elif box=="tight_out":
        els[1].set_upper_limits(R=180.0); els[4].set_lower_limits(C=2e-3) if False else None
        els[3].set_lower_limits(R=350.0)
    for idx,key in fixed: els[idx].set_fixed(**{key: True})
    before = c.serialize(17); start = [dict(e.get_values()) for e in els]
    try:
        r = fit_circuit(c, data, method=meth, weight=wt, max_nfev=200, num_procs=1)
    except Exception as e:
        return (a, "EXC:"+type(e).__name__+":"+str(e)[:50])
    problems=[]
    if c.serialize(17)!=before: problems.append("input-mutated")
    rel = r.circuit.get_elements()
    for i,e in enumerate(rel):
        for k,v in e.get_values().items():
            lo,hi = e.get_lower_limit(k), e.get_upper_limit(k)
            if not (lo<=v<=hi): problems.append(f"bound:{i}{k}={v} not in [{lo},{hi}]")
            if e.is_fixed(k) and v!=start[i][k]: problems.append(f"fixed-moved:{i}{k}")
            name = r.circuit.get_element_name(e)
            if r.parameters[name][k].value != v: problems.append(f"table:{name}.{k}")
            if r.parameters[name][k].fixed != e.is_fixed(k): problems.append(f"tablefixed:{name}.{k}")
    return (a, ";".join(problems) or "ok")
if __name__=="__main__":
    fixeds = [(), ((0,"R"),), ((2,"n"),), ((0,"R"),(4,"C"))]
    cases = list(itertools.product(_METHODS, _WEIGHT_FUNCTIONS, ["default","tight_in","tight_out"], fixeds))
    st=collections.Counter(); ex={}
    t=time.time()
    with get_context("fork").Pool(16) as p:
        for a,k in p.imap(case, cases, 4):
            kk = k.split(":")[0] if k.startswith("EXC") else k
            st[kk[:60]]+=1; ex.setdefault(kk[:60], (a,k))
    print(len(cases), round(time.time()-t,1))
    for k,v in st.items(): print(v,k, ex[k])
