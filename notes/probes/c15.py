import warnings
warnings.simplefilter("ignore")
import numpy as np
import pyimpspec
from pyimpspec import *
from pyimpspec.circuit import registry
from pyimpspec.circuit.registry import ElementDefinition, ParameterDefinition, register_element, remove_elements, reset, reset_default_parameter_values
def mk(name, sym, eq="R*2", bad=False):
    class U(Element):
        def _impedance(self, f, R):
            return (R*(3 if bad else 2)) + 0j*f
    U.__name__ = name
    return ElementDefinition(Class=U, symbol=sym, name=name, description="d", equation=eq,
        parameters=[ParameterDefinition("R","ohm","res",1.0,0.0,np.inf,False)])
base = sorted(get_elements())
d = mk("Ua","Ux")
register_element(d, private=True)
print("private registered:", "Ux" in get_elements(), "Ux" in get_elements(private=True))
reset()
print("after reset:", "Ux" in get_elements(private=True), "Ux" in registry._PRIVATE_ELEMENTS)
d2 = mk("Ub","Ux")
register_element(d2)
print("re-registered public:", "Ux" in get_elements(), "Ux" in get_elements(private=True))
reset(); registry._PRIVATE_ELEMENTS.pop("Ux", None)
# inconsistent
try: register_element(mk("Uc","Uy",bad=True)); print("inconsistent accepted!")
except Exception as e: print("inconsistent refused:", type(e).__name__)
print("Uy" in get_elements(private=True))
# duplicate symbol of builtin
try: register_element(mk("Ud","R")); print("shadow accepted!")
except Exception as e: print("shadow refused:", type(e).__name__)
print(get_elements()["R"].__name__, parse_cdc("R").get_elements()[0].__class__.__name__)
# invalid symbols
for s in ["r","1R","R-","RR","Rx y",""," "]:
    try: register_element(mk("Ue",s)); print("accepted", repr(s)); 
    except Exception as e: print("refused", repr(s), type(e).__name__)
reset()
print(sorted(get_elements())==base)
# longest symbol wins
register_element(mk("Uf","Rx"))
print(parse_cdc("RxR").to_string(), [type(e).__name__ for e in parse_cdc("RxR").get_elements()])
try: remove_elements(Resistor)
except Exception as e: print("remove builtin refused:", type(e).__name__)
# set_default_values
Resistor.set_default_values(R=5.0)
print(Resistor().get_value("R"), parse_cdc("R").get_elements()[0].get_value("R"))
reset(); print(Resistor().get_value("R"), sorted(get_elements())==base)
# re-register builtin class under other symbol
try:
    register_element(ElementDefinition(Class=Resistor, symbol="Rz", name="n", description="d", equation="R", parameters=[ParameterDefinition("R","ohm","res",7.0,0.0,np.inf,False)]))
    print("builtin class re-registered as Rz:", Resistor.get_symbol(), sorted(get_elements()))
except Exception as e: print("refused", type(e).__name__, e)
reset(); print(Resistor.get_symbol(), Resistor().get_value("R"), parse_cdc("R").to_string())
