import warnings, itertools, collections
warnings.simplefilter("ignore")
import numpy as np, sympy as sp
from pyimpspec import *
from pyimpspec.analysis.fitting import generate_fit_identifiers
primes=[2,3,5,7,11,13,17,19,23,29,31,37,41,43,47,53,59,61,67,71]
cdcs = ["R(RC)", "RR(RC)R", "R{:a}(R{:b}C)R", "RTlm{X_1=[R(RC)]}R", "(Tlm{X_1=[Tlm]}R)", "R(R[C(RQ)])L", "RRRRRRRRRRRR", "R{:R_2}RR", "Tlm{X_1=[R],X_2=[R],Z_A=[R],Z_B=[RC]}"]
f = np.logspace(3,-1,9)
for cdc in cdcs:
    c = parse_cdc(cdc)
    run = c.generate_element_identifiers(running=True); ext = c.generate_element_identifiers(running=False)
    # distinct values
    i=0
    for e in run:
        for k,v in e.get_values().items():
            if k in ("n","a","b"): continue
            e.set_values(**{k: v*(1+primes[i%20]/100)}); i+=1
    ok=[]
    ok.append(("run-bij", sorted(run.values())==list(range(len(run)))))
    per=collections.defaultdict(list)
    for e,i_ in ext.items(): per[e.get_symbol()].append(i_)
    ok.append(("pertype", all(sorted(v)==list(range(1,len(v)+1)) for v in per.values())))
    names=[c.get_element_name(e, ext) for e in ext]
    ok.append(("names-unique", len(set(names))==len(names)))
    expr = c.to_sympy()
    Z0 = c.get_impedances(f)
    fit_ids = generate_fit_identifiers(c)
    allok=True
    for e,i_ in run.items():
        for k,v in e.get_values().items():
            symname = f"{k}_{e.get_label()}" if e.get_label() else f"{k}_{i_}"
            if sp.Symbol(symname) not in expr.free_symbols: allok=False; print("   missing symbol", symname); continue
            # differential: substitute perturbed value for this symbol, defaults for others
            subs={}
            for e2,j in run.items():
                for k2,v2 in e2.get_values().items():
                    n2 = f"{k2}_{e2.get_label()}" if e2.get_label() else f"{k2}_{j}"
                    subs[sp.Symbol(n2)] = v2
            subs[sp.Symbol(symname)] = v*1.1
            lam = sp.lambdify(sp.Symbol("f"), expr.subs(subs), "numpy")
            Zs = np.array(lam(f.astype(complex)), dtype=complex)*np.ones(len(f))
            e.set_values(**{k: v*1.1}); Ze = c.get_impedances(f); e.set_values(**{k: v})
            if not np.allclose(Zs, Ze, rtol=1e-9): allok=False; print("   symbol/element mismatch", symname)
            if getattr(fit_ids[e], k) != f"{k}_{i_}": allok=False; print("   fitid mismatch", symname)
    ok.append(("symbol<->element", allok))
    d = simulate_spectrum(c, np.logspace(4,-2,31))
    try:
        r = fit_circuit(c, d, method="leastsq", weight="boukamp", max_nfev=20, num_procs=1)
        tab=True
        ext2 = r.circuit.generate_element_identifiers(running=False)
        for e in ext2:
            nm = r.circuit.get_element_name(e, ext2)
            for k,v in e.get_values().items():
                if r.parameters[nm][k].value != v: tab=False; print("   table mismatch", nm, k)
        df = r.to_parameters_dataframe(); df2 = r.to_parameters_dataframe(running=True)
        ok.append(("table", tab and len(df)==sum(len(e.get_values()) for e in ext2)))
    except Exception as ex_:
        ok.append(("fit", f"{type(ex_).__name__}: {str(ex_)[:80]}"))
    print(cdc, ok)
