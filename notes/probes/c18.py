import warnings, time, collections
warnings.simplefilter("ignore")
import numpy as np
from pyimpspec import *
c = parse_cdc("R{R=100}(R{R=200}C{C=1e-5})(R{R=300}C{C=1e-3})")
out = collections.Counter()
for n in (1,2,3,4,5,6,8,12,20):
    f = np.logspace(4,-1,n) if n>1 else np.array([10.0])
    d = simulate_spectrum(c, f)
    for test in ["real","complex","imaginary","real-inv","complex-inv","imaginary-inv"]:
        for adm in (False, True, None):
            for nF in (0, 10, -10):
                for num_RC in (0, 3):
                    t=time.time()
                    try:
                        perform_kramers_kronig_test(d, test=test, admittance=adm, num_F_ext_evaluations=nF, num_RC=num_RC, num_procs=1); k="ok"
                    except (TypeError, ValueError) as e: k=f"{type(e).__name__}: {str(e)[:70]}"
                    except Exception as e: k=f"{type(e).__name__}: {str(e)[:70]}"
                    out[(n,k)]+=1
for k,v in sorted(out.items(), key=lambda kv: (kv[0][0], kv[0][1])): print(v, k)
