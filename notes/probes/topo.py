import warnings, itertools, time, collections, math, cmath
warnings.simplefilter("ignore")
import numpy as np
from pyimpspec import *
from pyimpspec.circuit.elements import *
from pyimpspec.exceptions import *
# canonical alternating trees: ('L',) | ('S', kids>=2) | ('P', kids>=2); top-level series implicit
def comps(n, minparts):
    # ordered compositions of n into >= minparts parts
    def rec(rem, parts):
        if rem==0:
            if len(parts)>=minparts: yield tuple(parts)
            return
        for k in range(1, rem+1):
            yield from rec(rem-k, parts+[k])
    yield from rec(n, [])
from functools import lru_cache
@lru_cache(None)
def trees(n, kind):  # kind: node type of this subtree root among 'S','P' (children must be other kind or leaf)
    out=[]
    other = 'P' if kind=='S' else 'S'
    for c in comps(n, 2):
        kidsets=[]
        for k in c:
            opts = [('L',)] if k==1 else list(trees(k, other))
            kidsets.append(opts)
        for kids in itertools.product(*kidsets): out.append((kind,)+kids)
    return tuple(out)
def top(n):
    return [('L',)] if n==1 else list(trees(n,'S'))+list(trees(n,'P'))
print([len(top(n)) for n in range(1,7)])
def leaves(t): return 1 if t[0]=='L' else sum(leaves(k) for k in t[1:])
PAL = {
 "R": lambda: Resistor(R=1500.0), "R0": lambda: Resistor(R=0.0), "Rinf": lambda: Resistor(R=math.inf),
 "C": lambda: Capacitor(C=2e-6), "L": lambda: Inductor(L=3e-4), "Q": lambda: ConstantPhaseElement(Y=5e-5, n=0.75),
 "W": lambda: Warburg(Y=2e-3), "Tlm": lambda: TransmissionLineModel(),
}
def build(t, it):
    if t[0]=='L': return PAL[next(it)]()
    kids=[build(k,it) for k in t[1:]]
    return Series(kids) if t[0]=='S' else Parallel(kids)
def ref(obj, f):
    if isinstance(obj, Series):
        z=0j
        for k in obj: 
            zk=ref(k,f)
            if zk is None: return None
            z+=zk
        return z
    if isinstance(obj, Parallel):
        zs=[ref(k,f) for k in obj]
        if any(z==0 for z in zs if z is not None): return 0j
        zs=[z for z in zs if z is not None]
        if not zs: return None
        y=0j
        for z in zs: y+=1/z
        return 1/y
    z = complex(obj.get_impedances(np.array([f]))[0]) if not (isinstance(obj, Resistor) and math.isinf(obj.get_value("R"))) else None
    return z
fs = np.array([1e-6, 3.3e-2, 1.0, 7.7e3, 1e9])
stats=collections.Counter(); bad=[]
t0=time.time(); n=0
for L in (1,2,3):
    for t in top(L):
        for fill in itertools.product(PAL, repeat=L):
            obj = build(t, iter(fill)); c = Circuit(obj if isinstance(obj,(Series,)) else Series([obj])); n+=1
            exp = [ref(obj, f) for f in fs]
            try:
                Z = c.get_impedances(fs); got="ok"
            except InfiniteImpedance: got="inf"
            except Exception as e: got=type(e).__name__
            if any(e is None for e in exp):
                k = "open-ok" if got=="inf" else f"open-but-{got}"
            elif got!="ok": k=f"finite-but-{got}"
            else:
                err = max(abs(a-b)/max(abs(b),1e-300) if b!=0 else abs(a) for a,b in zip(Z,exp))
                k = "match" if err<1e-9 else "MISMATCH"
                if k=="MISMATCH": bad.append((c.to_string(), fill, err))
            stats[k]+=1
            if k not in ("match","open-ok") and len(bad)<15: bad.append((k, c.to_string(), fill))
            # one-at-a-time vs array
            if got=="ok":
                Z1 = np.array([c.get_impedances(np.array([f]))[0] for f in fs])
                if not np.allclose(Z1, Z, rtol=1e-13, atol=0): stats["scalar-vs-array-diff"]+=1
print(n, time.time()-t0, stats)
for b in bad[:15]: print(b)
