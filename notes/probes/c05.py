import warnings, itertools, collections, json, copy, time
warnings.simplefilter("ignore")
import numpy as np
from pyimpspec import DataSet
def make(n): 
    f = [10.0**(n-i) for i in range(n)]            # descending physical points
    Z = [complex(i+1, -(i+1)*10) for i in range(n)]
    return f, Z
def maskmenu(n):
    keys=list(range(-1,n+1)); out=[{}]
    for k in keys:
        for v in (True,False): out.append({k:v})
    for k1,k2 in itertools.combinations(keys,2):
        for v1,v2 in itertools.product((True,False),repeat=2): out.append({k1:v1,k2:v2})
    return out
# reference: list of [f,Z,masked] descending
def ref_construct(f,Z,mask,order):
    pts=[[f[i],Z[i],False] for i in range(len(f))]   # physical points, descending
    n=len(f)
    for k,v in mask.items():
        # key k refers to position in the *supplied* order
        if 0<=k<n:
            phys = k if order=="desc" else n-1-k
            pts[phys][2]=v
    return pts
def ref_set_mask(pts, m):
    if len(m)==0:
        for p in pts: p[2]=False
    else:
        for k,v in m.items():
            if 0<=k<len(pts): pts[k][2]=v
def obs(d):
    return tuple(zip(d.get_frequencies(None).tolist(), [complex(z) for z in d.get_impedances(None)], [d.get_mask()[i] for i in range(d.get_num_points(None))]))
def robs(pts): return tuple((p[0],p[1],p[2]) for p in pts)
viol=collections.Counter(); ex={}
def V(k, info):
    viol[k]+=1; ex.setdefault(k, info)
t=time.time(); trans=0; states=set()
for n in (1,2,3):
    f,Z = make(n)
    for order in ("desc","asc"):
        for m in maskmenu(n):
            ff,zz = (f,Z) if order=="desc" else (f[::-1],Z[::-1])
            m_in = dict(m); snap=dict(m)
            try: d = DataSet(np.array(ff), np.array(zz), mask=m_in)
            except Exception as e: V(("construct",type(e).__name__),(n,order,m)); continue
            pts = ref_construct(f,Z,m,order); trans+=1
            if m_in!=snap: V("caller-mask-mutated",(n,order,m,m_in))
            if obs(d)!=robs(pts): V("construct-mismatch",(n,order,m,obs(d),robs(pts)))
            states.add(obs(d))
            # views partition
            for masked in (False,True):
                fv=d.get_frequencies(masked).tolist(); zv=[complex(z) for z in d.get_impedances(masked)]
                exp=[(p[0],p[1]) for p in pts if p[2]==masked]
                # use impl mask semantics for exp from obs(d) to isolate view logic
                exp2=[(a,b) for a,b,c in obs(d) if c==masked]
                if list(zip(fv,zv))!=exp2: V("view-mismatch",(n,order,m,masked))
            # ops from this state
            for m2 in maskmenu(n):
                d2 = DataSet(np.array(ff), np.array(zz), mask=dict(m)); base=[list(x) for x in obs(d2)]
                d2.set_mask(dict(m2)); ref_set_mask(base,m2); trans+=1
                if obs(d2)!=robs(base): V("set_mask-mismatch",(n,order,m,m2))
            for c in [x*3.16 for x in f]+f+[f[-1]/10]:
                for op in ("low_pass","high_pass"):
                    d2 = DataSet(np.array(ff), np.array(zz), mask=dict(m)); base=[list(x) for x in obs(d2)]
                    getattr(d2,op)(c); trans+=1
                    for p in base:
                        if (op=="low_pass" and p[0]>c) or (op=="high_pass" and p[0]<c): p[2]=True
                    if obs(d2)!=robs(base): V(op+"-mismatch",(n,order,m,c))
            # dict round trips
            dd = d.to_dict(); js = json.loads(json.dumps(dd)); trans+=1
            try:
                d3 = DataSet.from_dict(js)
                if obs(d3)!=obs(d): V("json-roundtrip-mismatch",(n,order,m))
            except Exception as e: V(("json-roundtrip",type(e).__name__),(n,order,m,str(e)[:40]))
            d_again = d.to_dict(); snapd=copy.deepcopy(d_again)
            try:
                DataSet.from_dict(d_again)
                if d_again!=snapd: V("from_dict-mutates-caller-dict",(sorted(set(snapd)-set(d_again)),))
                DataSet.from_dict(d_again)
            except Exception as e: V(("from_dict-twice",type(e).__name__),(str(e)[:40],))
            for drop in ("version","mask","path","label","uuid"):
                d4=d.to_dict(); d4.pop(drop)
                try:
                    d5=DataSet.from_dict(d4)
                    if drop!="mask" and obs(d5)!=obs(d): V("optional-key-mismatch",(drop,))
                except Exception as e: V(("missing-"+drop,type(e).__name__),(str(e)[:40],))
            try:
                d6 = DataSet.duplicate(d); trans+=1
                if obs(d6)!=obs(d): V("duplicate-mismatch",(n,order,m,obs(d6),obs(d)))
                if d6.uuid==d.uuid: V("duplicate-same-uuid",())
            except Exception as e: V(("duplicate",type(e).__name__),(str(e)[:40],))
            try:
                d7 = DataSet.average([d,d]); trans+=1
                if [x[:2] for x in obs(d7)]!=[x[:2] for x in obs(d)]: V("average-mismatch",(n,order,m))
            except Exception as e: V(("average",type(e).__name__),(str(e)[:60],))
            # subtract
            d8 = DataSet(np.array(ff), np.array(zz), mask=dict(m)); before=obs(d8)
            d8.subtract_impedances(np.array([1+1j])); 
            if [ (a,b-(1+1j),c) for a,b,c in before]!=list(obs(d8)): V("subtract-scalar",(n,order,m))
print("states",len(states),"transitions",trans,round(time.time()-t,1),"s")
for k,v in viol.items(): print(v,k,ex[k])
