import warnings, time
import numpy as np
from pyimpspec import get_elements
warnings.simplefilter("ignore")
els = get_elements(private=True)
for sym, C in els.items():
    e = C()
    for f in (0.0, np.inf):
        t=time.time()
        try:
            Z = e.get_impedances(np.array([f]))[0]
            r = f"{Z:.6g}"
        except Exception as ex:
            r = type(ex).__name__
        # continuous extension check
        fe = 1e-12 if f==0 else 1e15
        try:
            Ze = e.get_impedances(np.array([fe]))[0]
        except Exception as ex:
            Ze = type(ex).__name__
        print(f"{sym:6s} f={f} -> {r}  ({time.time()-t:.2f}s)   near: {Ze}")
