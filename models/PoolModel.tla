---------------------------- MODULE PoolModel ----------------------------
EXTENDS Naturals, Sequences, FiniteSets
CONSTANTS N, P
VARIABLES next, running, done

Init == /\ next = 1
        /\ running = {}
        /\ done = <<>>

Dispatch == /\ next <= N
            /\ Cardinality(running) < P
            /\ running' = running \cup {next}
            /\ next' = next + 1
            /\ UNCHANGED done

\* greedy dispatch: a task may only complete when no dispatch is possible
Complete(t) == /\ t \in running
               /\ ~(next <= N /\ Cardinality(running) < P)
               /\ running' = running \ {t}
               /\ done' = Append(done, t)
               /\ UNCHANGED next

Next == Dispatch \/ \E t \in 1..N : Complete(t)
Spec == Init /\ [][Next]_<<next, running, done>>
TypeOK == Len(done) <= N
=============================================================================
