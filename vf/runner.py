"""Runner: environment pinning, case fan-out, violation bookkeeping, evidence, exit code.

A check module (vf/checks/cNN.py) defines

    ID      = "C04"
    LEVEL   = "exploration" | "model_checking"
    def run(ctx)            -> None      explores; calls ctx.merge(partial) / ctx.violation(...)
    def replay(case: dict)  -> list      re-executes ONE recorded case, returns the violations it shows
                                         (each {"key","what","case","detail"})

A *partial* (what a worker returns for one chunk of the enumeration) is a dict with any of
    n            int        executions / evaluations in the chunk
    nontrivial   iterable   hashable ids of distinct non-trivial cases
    outcomes     dict       outcome label -> count
    states       int        (E2/E3) distinct states first seen
    transitions  int        (E2/E3)
    traces       int        (E2/E3/E4) traces replayed against the implementation
    samples      list       a few cases written out
    violations   list       [{"key","what","case","detail"}]
    stats        dict       free-form counters (summed)
    capped       str|None   reason an enumeration was cut short
"""
from __future__ import annotations

import hashlib
import importlib
import json
import os
import random
import sys
import time
import traceback
from collections import Counter
from typing import Any, Callable, Dict, Iterable, List, Optional

VERIF = os.path.dirname(os.path.dirname(os.path.abspath(__file__)))
REPO = os.environ.get("VF_REPO", "/repo")
REPO_SRC = os.path.join(REPO, "src")
EVIDENCE_DIR = os.path.join(VERIF, "evidence")
REPLAY_DIR = os.path.join(VERIF, "replays")
KNOWN_FILE = os.path.join(VERIF, "known_findings.jsonl")

PINNED_ENV = {
    "PYTHONHASHSEED": "0",
    "OPENBLAS_NUM_THREADS": "1",
    "OMP_NUM_THREADS": "1",
    "MKL_NUM_THREADS": "1",
    "NUMEXPR_NUM_THREADS": "1",
    "MPLBACKEND": "Agg",
    "PYTHONDONTWRITEBYTECODE": "1",
    "PYIMPSPEC_VERIF": "1",
}


def pin_environment_and_reexec() -> None:
    """Re-execute once with a pinned environment so hashing/BLAS threading cannot vary between runs."""
    if os.environ.get("VF_CHILD") == "1":
        return
    env = dict(os.environ)
    env.update(PINNED_ENV)
    env["VF_CHILD"] = "1"
    env["PYTHONPATH"] = VERIF + os.pathsep + env.get("PYTHONPATH", "")
    os.execve(sys.executable, [sys.executable, "-m", "vf"] + sys.argv[1:], env)


def bind_repo() -> str:
    """Make `import pyimpspec` resolve to /repo/src (the current working tree) and prove it."""
    if REPO_SRC in sys.path:
        sys.path.remove(REPO_SRC)
    sys.path.insert(0, REPO_SRC)
    import pyimpspec  # noqa

    path = os.path.realpath(pyimpspec.__file__)
    if not path.startswith(os.path.realpath(REPO_SRC) + os.sep):
        print(f"HARNESS-ERROR: pyimpspec imported from {path}, not from {REPO_SRC}")
        sys.exit(2)
    return path


def jsonable(x: Any) -> Any:
    """Lossless-enough JSON form of the values checks put into cases (floats incl. inf/nan, complex, numpy)."""
    try:
        import numpy as np
    except Exception:  # pragma: no cover
        np = None
    if isinstance(x, (str, bool)) or x is None:
        return x
    if isinstance(x, int):
        return x
    if isinstance(x, float):
        if x != x:
            return "nan"
        if x in (float("inf"), float("-inf")):
            return "inf" if x > 0 else "-inf"
        return x
    if isinstance(x, complex):
        return {"re": jsonable(x.real), "im": jsonable(x.imag)}
    if np is not None:
        if isinstance(x, np.generic):
            return jsonable(x.item())
        if isinstance(x, np.ndarray):
            return [jsonable(v) for v in x.tolist()]
    if isinstance(x, dict):
        return {str(k): jsonable(v) for k, v in x.items()}
    if isinstance(x, (list, tuple, set, frozenset)):
        return [jsonable(v) for v in x]
    return repr(x)


def unjson_float(x: Any) -> float:
    if isinstance(x, str):
        return float(x)
    return float(x)


def case_size(case: Any) -> int:
    return len(json.dumps(jsonable(case), sort_keys=True))


class Ctx:
    def __init__(self, prop: str, level: str, tier: str, seed: int, workers: int):
        self.prop = prop
        self.level = level
        self.tier = tier
        self.seed = seed
        self.workers = workers
        self.rng = random.Random(seed)
        self.n = 0
        self.nontrivial: set = set()
        self.nontrivial_extra = 0  # distinct non-trivial cases counted by workers (guaranteed disjoint from the set)
        self.outcomes: Counter = Counter()
        self.states = 0
        self.transitions = 0
        self.traces = 0
        self.samples: List[Any] = []
        self.stats: Counter = Counter()
        self.capped: List[str] = []
        self.viol: Dict[str, dict] = {}
        self.viol_count: Counter = Counter()
        self.rule = ""
        self.exhaustive: Optional[bool] = None
        self.assumptions: List[str] = []
        self.extra: Dict[str, Any] = {}
        self.t0 = time.time()
        self.deadline: Optional[float] = None
        self.parts: Dict[str, dict] = {}

    # ------------------------------------------------------------------ bookkeeping
    def violation(self, key: str, what: str, case: Any, detail: str = "") -> None:
        self.viol_count[key] += 1
        v = {"key": key, "what": what, "case": jsonable(case), "detail": detail[:2000]}
        old = self.viol.get(key)
        if old is None or (case_size(v["case"]), json.dumps(v["case"], sort_keys=True)) < (
            case_size(old["case"]),
            json.dumps(old["case"], sort_keys=True),
        ):
            self.viol[key] = v

    def merge(self, part: Optional[dict], label: Optional[str] = None) -> None:
        if not part:
            return
        self.n += int(part.get("n", 0))
        for k in part.get("nontrivial", ()):  # hashable ids
            self.nontrivial.add(k)
        self.nontrivial_extra += int(part.get("nontrivial_count", 0))
        for k, v in (part.get("outcomes") or {}).items():
            self.outcomes[k] += v
        self.states += int(part.get("states", 0))
        self.transitions += int(part.get("transitions", 0))
        self.traces += int(part.get("traces", 0))
        for s in part.get("samples", ()) or ():
            if len(self.samples) < 12:
                self.samples.append(jsonable(s))
        for k, v in (part.get("stats") or {}).items():
            self.stats[k] += v
        if part.get("capped"):
            self.capped.append(str(part["capped"]))
        for v in part.get("violations", ()) or ():
            self.violation(v["key"], v["what"], v["case"], v.get("detail", ""))
            # violation() counted 1; add the remainder if the worker aggregated
            extra = int(v.get("count", 1)) - 1
            if extra > 0:
                self.viol_count[v["key"]] += extra
        if label is not None:
            p = self.parts.setdefault(label, {"n": 0})
            p["n"] += int(part.get("n", 0))

    def pmap(self, fn: Callable, chunks: Iterable[Any], label: Optional[str] = None, workers: Optional[int] = None,
             maxtasksperchild: Optional[int] = None) -> None:
        """Run fn(chunk) for every chunk on a fork pool and merge the partial results (order-independent)."""
        chunks = list(chunks)
        if not chunks:
            return
        w = min(workers or self.workers, len(chunks))
        if w <= 1:
            for c in chunks:
                self.merge(fn(c), label)
            return
        import multiprocessing as mp

        ctx = mp.get_context("fork")
        with ctx.Pool(w, maxtasksperchild=maxtasksperchild) as pool:
            for part in pool.imap_unordered(fn, chunks):
                self.merge(part, label)

    def time_left(self) -> float:
        if self.deadline is None:
            return 1e9
        return self.deadline - time.time()


def load_known() -> List[dict]:
    out = []
    if os.path.exists(KNOWN_FILE):
        with open(KNOWN_FILE) as fp:
            for line in fp:
                line = line.strip()
                if line and not line.startswith("#"):
                    out.append(json.loads(line))
    return out


def write_evidence(ctx: Ctx, n_viol: int, n_known: int) -> str:
    os.makedirs(EVIDENCE_DIR, exist_ok=True)
    cov: Dict[str, Any] = {
        "evaluations": int(ctx.n),
        "distinct_nontrivial": int(len(ctx.nontrivial) + ctx.nontrivial_extra),
        "rule": ctx.rule,
        "samples": ctx.samples[:12],
        "distinct_outcomes": len(ctx.outcomes),
        "outcomes": dict(sorted(ctx.outcomes.items(), key=lambda kv: (-kv[1], kv[0]))[:40]),
        "stats": dict(sorted(ctx.stats.items())),
        "parts": ctx.parts,
        "caps_hit": ctx.capped,
        "known_findings_reproduced": n_known,
        "workers": ctx.workers,
    }
    if ctx.exhaustive is not None:
        cov["exhaustive"] = bool(ctx.exhaustive and not ctx.capped)
    if ctx.level == "model_checking":
        cov["states"] = int(ctx.states)
        cov["transitions"] = int(ctx.transitions)
        cov["traces_validated_against_impl"] = int(ctx.traces)
    cov.update(ctx.extra)
    ev = {
        "property_id": ctx.prop,
        "tier": ctx.tier,
        "seed": int(ctx.seed),
        "level": ctx.level,
        "coverage": cov,
        "assumptions": ctx.assumptions,
        "wall_s": round(time.time() - ctx.t0, 2),
        "violations": int(n_viol),
    }
    path = os.path.join(EVIDENCE_DIR, f"{ctx.prop}.json")
    tmp = path + ".tmp"
    with open(tmp, "w") as fp:
        json.dump(ev, fp, indent=1, sort_keys=True)
        fp.write("\n")
    os.replace(tmp, path)
    return path


def run_check(prop: str, tier: str, seed: int, workers: int) -> int:
    bind_repo()
    mod = importlib.import_module(f"vf.checks.{prop.lower()}")
    ctx = Ctx(prop, mod.LEVEL, tier, seed, workers)
    harness_error = None
    try:
        mod.run(ctx)
    except SystemExit:
        raise
    except BaseException:  # the harness itself broke: never report that as a property violation
        harness_error = traceback.format_exc()

    known = [k for k in load_known() if k.get("property") == prop and k.get("status") == "known"]
    known_keys = {k["key"]: k for k in known}
    new_viol, known_hit = [], []
    nondeterministic = []
    for key in sorted(ctx.viol):
        v = ctx.viol[key]
        # confirm by re-executing the recorded case without the explorer
        try:
            again = mod.replay(v["case"])
            keys_again = {a["key"] for a in again}
        except BaseException:
            keys_again = set()
            v["detail"] += "\nREPLAY CRASHED:\n" + traceback.format_exc()[-1500:]
        if key not in keys_again:
            nondeterministic.append(v)
            continue
        if key in known_keys:
            known_hit.append(v)
        else:
            new_viol.append(v)

    for v in known_hit:
        print(f"KNOWN-FINDING: property={prop} {known_keys[v['key']].get('what', v['what'])} [key={v['key']}; {ctx.viol_count[v['key']]} case(s)]")
    rc = 0
    os.makedirs(REPLAY_DIR, exist_ok=True)
    for v in new_viol:
        h = hashlib.sha1(v["key"].encode()).hexdigest()[:10]
        path = os.path.join(REPLAY_DIR, f"{prop}-{h}.json")
        with open(path, "w") as fp:
            json.dump({"property": prop, "key": v["key"], "what": v["what"], "case": v["case"], "detail": v["detail"],
                       "occurrences": ctx.viol_count[v["key"]]}, fp, indent=1, sort_keys=True)
            fp.write("\n")
        print(f"VIOLATION property={prop} replay={path}")
        print(f"  key={v['key']}\n  what={v['what']}\n  occurrences={ctx.viol_count[v['key']]}")
        rc = 1
    for v in nondeterministic:
        print(f"HARNESS-NONDETERMINISM: property={prop} key={v['key']} did not reproduce from its recorded case: {json.dumps(v['case'])[:300]}")
        rc = max(rc, 2)
    if harness_error:
        print("HARNESS-ERROR:\n" + harness_error)
        rc = max(rc, 2)
    path = write_evidence(ctx, len(new_viol), len(known_hit))
    dt = time.time() - ctx.t0
    print(f"{prop} tier={tier} seed={seed}: evaluations={ctx.n} distinct_nontrivial={len(ctx.nontrivial) + ctx.nontrivial_extra} "
          f"states={ctx.states} transitions={ctx.transitions} traces={ctx.traces} outcomes={len(ctx.outcomes)} "
          f"violations={len(new_viol)} known={len(known_hit)} caps={len(ctx.capped)} wall={dt:.1f}s evidence={path}")
    return rc


def replay_file(path: str) -> int:
    bind_repo()
    with open(path) as fp:
        rec = json.load(fp)
    prop = rec["property"]
    mod = importlib.import_module(f"vf.checks.{prop.lower()}")
    res = mod.replay(rec["case"])
    print(f"replaying {path}: property={prop} key={rec['key']}")
    print(f"case: {json.dumps(rec['case'])[:1500]}")
    hit = False
    for v in res:
        print(f"  observed violation key={v['key']}\n    what={v['what']}\n    detail={v.get('detail','')[:1500]}")
        hit = hit or v["key"] == rec["key"]
    if not res:
        print("  no violation observed (property holds on this case now)")
    if hit:
        print(f"VIOLATION property={prop} replay={path}")
        return 1
    return 0
