"""Runner: environment pinning, case fan-out, violation bookkeeping, evidence, exit code.

A check module (vf/checks/cNN.py) defines

    ID      = "C04"
    LEVEL   = "exploration" | "model_checking"
    def run(ctx)            -> None      explores; calls ctx.merge(partial) / ctx.violation(...)
    def replay(case: dict)  -> list      re-executes ONE recorded case, returns the violations it shows
                                         (each {"key","what","case","detail"})

A *partial* (what a worker returns for one chunk of the enumeration) is a dict with any of
    n            int        executions / evaluations in the chunk
    nontrivial   iterable   hashable ids of distinct non-trivial cases
    outcomes     dict       outcome label -> count
    states       int        (E2/E3) distinct states first seen
    transitions  int        (E2/E3)
    traces       int        (E2/E3/E4) traces replayed against the implementation
    samples      list       a few cases written out
    violations   list       [{"key","what","case","detail"}]
    stats        dict       free-form counters (summed)
    capped       str|None   reason an enumeration was cut short
"""
from __future__ import annotations

import hashlib
import importlib
import json
import os
import random
import sys
import time
import traceback
from collections import Counter
from typing import Any, Callable, Dict, Iterable, List, Optional, Tuple

VERIF = os.path.dirname(os.path.dirname(os.path.abspath(__file__)))
REPO = os.environ.get("VF_REPO", "/repo")
REPO_SRC = os.path.join(REPO, "src")
_OUT = os.environ.get("VF_OUT", VERIF)   # auxiliary runs (e.g. against a scratch worktree via VF_REPO) write elsewhere; registered commands never set it
EVIDENCE_DIR = os.path.join(_OUT, "evidence")
REPLAY_DIR = os.path.join(_OUT, "replays")
KNOWN_FILE = os.path.join(VERIF, "known_findings.jsonl")

PINNED_ENV = {
    "PYTHONHASHSEED": "0",
    "OPENBLAS_NUM_THREADS": "1",
    "OMP_NUM_THREADS": "1",
    "MKL_NUM_THREADS": "1",
    "NUMEXPR_NUM_THREADS": "1",
    "MPLBACKEND": "Agg",
    "PYTHONDONTWRITEBYTECODE": "1",
    "PYIMPSPEC_VERIF": "1",
}


def pin_environment_and_reexec() -> None:
    """Re-execute once with a pinned environment so hashing/BLAS threading cannot vary between runs."""
    if os.environ.get("VF_CHILD") == "1":
        return
    env = dict(os.environ)
    env.update(PINNED_ENV)
    env["VF_CHILD"] = "1"
    env["PYTHONPATH"] = VERIF + os.pathsep + env.get("PYTHONPATH", "")
    os.execve(sys.executable, [sys.executable, "-m", "vf"] + sys.argv[1:], env)


def bind_repo() -> str:
    """Make `import pyimpspec` resolve to /repo/src (the current working tree) and prove it."""
    if REPO_SRC in sys.path:
        sys.path.remove(REPO_SRC)
    sys.path.insert(0, REPO_SRC)
    import pyimpspec  # noqa

    path = os.path.realpath(pyimpspec.__file__)
    if not path.startswith(os.path.realpath(REPO_SRC) + os.sep):
        print(f"HARNESS-ERROR: pyimpspec imported from {path}, not from {REPO_SRC}")
        sys.exit(2)
    return path


def jsonable(x: Any) -> Any:
    """Lossless-enough JSON form of the values checks put into cases (floats incl. inf/nan, complex, numpy)."""
    try:
        import numpy as np
    except Exception:  # pragma: no cover
        np = None
    if isinstance(x, (str, bool)) or x is None:
        return x
    if isinstance(x, int):
        return x
    if isinstance(x, float):
        if x != x:
            return "nan"
        if x in (float("inf"), float("-inf")):
            return "inf" if x > 0 else "-inf"
        return x
    if isinstance(x, complex):
        return {"re": jsonable(x.real), "im": jsonable(x.imag)}
    if np is not None:
        if isinstance(x, np.generic):
            return jsonable(x.item())
        if isinstance(x, np.ndarray):
            return [jsonable(v) for v in x.tolist()]
    if isinstance(x, dict):
        return {str(k): jsonable(v) for k, v in x.items()}
    if isinstance(x, (list, tuple, set, frozenset)):
        return [jsonable(v) for v in x]
    return repr(x)


def unjson_float(x: Any) -> float:
    if isinstance(x, str):
        return float(x)
    return float(x)


def case_size(case: Any) -> int:
    return len(json.dumps(jsonable(case), sort_keys=True))


class Ctx:
    def __init__(self, prop: str, level: str, tier: str, seed: int, workers: int):
        self.prop = prop
        self.level = level
        self.tier = tier
        self.seed = seed
        self.workers = workers
        self.rng = random.Random(seed)
        self.n = 0
        self.nontrivial: set = set()
        self.nontrivial_extra = 0  # distinct non-trivial cases counted by workers (guaranteed disjoint from the set)
        self.outcomes: Counter = Counter()
        self.states = 0
        self.transitions = 0
        self.traces = 0
        self.samples: List[Any] = []
        self.stats: Counter = Counter()
        self.capped: List[str] = []
        self.viol: Dict[str, dict] = {}
        self.viol_count: Counter = Counter()
        self.rule = ""
        self.exhaustive: Optional[bool] = None
        self.assumptions: List[str] = []
        self.extra: Dict[str, Any] = {}
        self.t0 = time.time()
        self.deadline: Optional[float] = None
        self.parts: Dict[str, dict] = {}
        self.viol_origin: Dict[str, Tuple[Any, Any]] = {}   # finding key -> (chunk function, chunk) that produced the kept case

    # ------------------------------------------------------------------ bookkeeping
    def violation(self, key: str, what: str, case: Any, detail: str = "") -> None:
        self.viol_count[key] += 1
        v = {"key": key, "what": what, "case": jsonable(case), "detail": detail[:2000]}
        old = self.viol.get(key)
        if old is None or (case_size(v["case"]), json.dumps(v["case"], sort_keys=True)) < (
            case_size(old["case"]),
            json.dumps(old["case"], sort_keys=True),
        ):
            self.viol[key] = v

    def merge(self, part: Optional[dict], label: Optional[str] = None, origin: Optional[Tuple[Any, Any]] = None) -> None:
        if not part:
            return
        self.n += int(part.get("n", 0))
        for k in part.get("nontrivial", ()):  # hashable ids
            self.nontrivial.add(k)
        self.nontrivial_extra += int(part.get("nontrivial_count", 0))
        for k, v in (part.get("outcomes") or {}).items():
            self.outcomes[k] += v
        self.states += int(part.get("states", 0))
        self.transitions += int(part.get("transitions", 0))
        self.traces += int(part.get("traces", 0))
        for s in part.get("samples", ()) or ():
            if len(self.samples) < 12:
                self.samples.append(jsonable(s))
        for k, v in (part.get("stats") or {}).items():
            self.stats[k] += v
        if part.get("capped"):
            self.capped.append(str(part["capped"]))
        for v in part.get("violations", ()) or ():
            before = self.viol.get(v["key"])
            self.violation(v["key"], v["what"], v["case"], v.get("detail", ""))
            if origin is not None and self.viol.get(v["key"]) is not before:
                self.viol_origin[v["key"]] = origin
            # violation() counted 1; add the remainder if the worker aggregated
            extra = int(v.get("count", 1)) - 1
            if extra > 0:
                self.viol_count[v["key"]] += extra
        if label is not None:
            p = self.parts.setdefault(label, {"n": 0})
            p["n"] += int(part.get("n", 0))

    def pmap(self, fn: Callable, chunks: Iterable[Any], label: Optional[str] = None, workers: Optional[int] = None,
             maxtasksperchild: Optional[int] = None) -> None:
        """Run fn(chunk) for every chunk on a fork pool and merge the partial results (order-independent)."""
        chunks = list(chunks)
        if not chunks:
            return
        w = min(workers or self.workers, len(chunks))
        if w <= 1:
            # still in a forked child: the runner process itself never executes library code after set-up, so that replays (forked
            # from it later) start from the same process image as the workers did
            for c in chunks:
                self.merge(run_in_fresh_fork(fn, c), label, origin=(fn, c))
            return
        import multiprocessing as mp

        # one fresh forked worker per chunk: a chunk's result is a function of (this process's state, the chunk) only, so a
        # violation that depends on earlier calls inside the chunk can be reproduced by re-running the chunk in a fresh fork
        ctx = mp.get_context("fork")
        with ctx.Pool(w, maxtasksperchild=1 if maxtasksperchild is None else maxtasksperchild) as pool:
            for i, part in pool.imap_unordered(_indexed_call, [(fn, i, c) for i, c in enumerate(chunks)]):
                self.merge(part, label, origin=(fn, chunks[i]))

    def time_left(self) -> float:
        if self.deadline is None:
            return 1e9
        return self.deadline - time.time()


def _indexed_call(arg):
    fn, i, chunk = arg
    return i, fn(chunk)


_FORK_FN: Optional[Callable] = None


def _fork_call(arg):
    return _FORK_FN(arg)


def _fork_map(fn: Callable, items: List[Any], workers: int) -> List[Any]:
    """fn(item) for every item, each call in its own freshly forked child of this process (results in order)."""
    global _FORK_FN
    import multiprocessing as mp

    if not items:
        return []
    _FORK_FN = fn   # inherited by the forked workers (fn may be a closure, which cannot be pickled)
    try:
        with mp.get_context("fork").Pool(max(1, min(workers, len(items))), maxtasksperchild=1) as pool:
            return list(pool.imap(_fork_call, items, 1))
    finally:
        _FORK_FN = None


def run_in_fresh_fork(fn: Callable, chunk: Any) -> Any:
    from vf.explore import in_child

    return in_child(lambda: fn(chunk))


def load_known() -> List[dict]:
    out = []
    if os.path.exists(KNOWN_FILE):
        with open(KNOWN_FILE) as fp:
            for line in fp:
                line = line.strip()
                if line and not line.startswith("#"):
                    out.append(json.loads(line))
    return out


def write_evidence(ctx: Ctx, n_viol: int, n_known: int) -> str:
    os.makedirs(EVIDENCE_DIR, exist_ok=True)
    cov: Dict[str, Any] = {
        "evaluations": int(ctx.n),
        "distinct_nontrivial": int(len(ctx.nontrivial) + ctx.nontrivial_extra),
        "rule": ctx.rule,
        "samples": ctx.samples[:12],
        "distinct_outcomes": len(ctx.outcomes),
        "outcomes": dict(sorted(ctx.outcomes.items(), key=lambda kv: (-kv[1], kv[0]))[:40]),
        "stats": dict(sorted(ctx.stats.items())),
        "parts": ctx.parts,
        "caps_hit": ctx.capped,
        "known_findings_reproduced": n_known,
        "workers": ctx.workers,
    }
    if ctx.exhaustive is not None:
        cov["exhaustive"] = bool(ctx.exhaustive and not ctx.capped)
    if ctx.level == "model_checking":
        cov["states"] = int(ctx.states)
        cov["transitions"] = int(ctx.transitions)
        cov["traces_validated_against_impl"] = int(ctx.traces)
    cov.update(ctx.extra)
    ev = {
        "property_id": ctx.prop,
        "tier": ctx.tier,
        "seed": int(ctx.seed),
        "level": ctx.level,
        "coverage": cov,
        "assumptions": ctx.assumptions,
        "wall_s": round(time.time() - ctx.t0, 2),
        "violations": int(n_viol),
    }
    path = os.path.join(EVIDENCE_DIR, f"{ctx.prop}.json")
    tmp = path + ".tmp"
    with open(tmp, "w") as fp:
        json.dump(ev, fp, indent=1, sort_keys=True)
        fp.write("\n")
    os.replace(tmp, path)
    return path


def run_check(prop: str, tier: str, seed: int, workers: int) -> int:
    bind_repo()
    mod = importlib.import_module(f"vf.checks.{prop.lower()}")
    ctx = Ctx(prop, mod.LEVEL, tier, seed, workers)
    harness_error = None
    try:
        mod.run(ctx)
    except SystemExit:
        raise
    except BaseException:  # the harness itself broke: never report that as a property violation
        harness_error = traceback.format_exc()

    known = [k for k in load_known() if k.get("property") == prop and k.get("status") == "known"]
    known_keys = {k["key"]: k for k in known}
    new_viol, known_hit = [], []
    nondeterministic = []
    # (1) confirm every violation by re-executing its recorded case without the explorer, each in a fresh fork so that one replay
    #     cannot disturb the next through process-global state of the library
    def _iso(case):
        try:
            return ("ok", [a["key"] for a in mod.replay(case)])
        except BaseException:
            return ("crash", traceback.format_exc()[-1500:])

    keys = sorted(ctx.viol)
    iso = _fork_map(_iso, [ctx.viol[k]["case"] for k in keys], ctx.workers)
    pending = []
    confirmed = set()
    for key, res in zip(keys, iso):
        v = ctx.viol[key]
        if res[0] == "ok" and key in res[1]:
            confirmed.add(key)
        else:
            if res[0] != "ok":
                v["detail"] += "\nREPLAY CRASHED:\n" + str(res[1])
            pending.append(key)
    # (2) not reproducible in isolation: does it reproduce when the chunk of cases it came from is re-run in a fresh fork? Then the
    #     behaviour depends on earlier calls in the same process (e.g. a cache keyed too coarsely) and the chunk is the replay
    if pending:
        origins = {}
        for key in pending:
            o = ctx.viol_origin.get(key)
            if o is not None:
                origins.setdefault(id(o[1]), (o, []))[1].append(key)
        olist = list(origins.values())

        def _ctx(o):
            try:
                part = o[0][0](o[0][1])
                return ("ok", [a["key"] for a in (part.get("violations") or ())])
            except BaseException:
                return ("crash", traceback.format_exc()[-1000:])

        for (o, ks), res in zip(olist, _fork_map(_ctx, olist, ctx.workers)):
            for key in ks:
                v = ctx.viol[key]
                if res[0] == "ok" and key in res[1]:
                    import base64
                    import pickle

                    v["what"] += " [depends on earlier calls in the same process: reproduces only when the recorded sequence of cases is re-run]"
                    v["context"] = {"fn": f"{o[0].__module__}:{o[0].__qualname__}", "chunk_pickle_b64": base64.b64encode(pickle.dumps(o[1])).decode(),
                                    "chunk_preview": repr(o[1])[:1500]}
                    confirmed.add(key)
                elif res[0] != "ok":
                    v["detail"] += "\nRE-RUN OF THE ORIGINATING CHUNK CRASHED:\n" + str(res[1])
    for key in keys:
        v = ctx.viol[key]
        if key not in confirmed:
            nondeterministic.append(v)
        elif key in known_keys:
            known_hit.append(v)
        else:
            new_viol.append(v)

    for v in known_hit:
        print(f"KNOWN-FINDING: property={prop} {known_keys[v['key']].get('what', v['what'])} [key={v['key']}; {ctx.viol_count[v['key']]} case(s)]")
    rc = 0
    os.makedirs(REPLAY_DIR, exist_ok=True)
    for v in new_viol:
        h = hashlib.sha1(v["key"].encode()).hexdigest()[:10]
        path = os.path.join(REPLAY_DIR, f"{prop}-{h}.json")
        with open(path, "w") as fp:
            json.dump({"property": prop, "key": v["key"], "what": v["what"], "case": v["case"], "detail": v["detail"],
                       "occurrences": ctx.viol_count[v["key"]], **({"context": v["context"]} if "context" in v else {})}, fp, indent=1, sort_keys=True)
            fp.write("\n")
        print(f"VIOLATION property={prop} replay={path}")
        print(f"  key={v['key']}\n  what={v['what']}\n  occurrences={ctx.viol_count[v['key']]}")
        rc = 1
    for v in nondeterministic:
        print(f"HARNESS-NONDETERMINISM: property={prop} key={v['key']} did not reproduce from its recorded case: {json.dumps(v['case'])[:300]}")
        if rc == 0:
            rc = 2   # nothing confirmed: the harness is at fault; with a confirmed, replayable violation the verdict stays VIOLATION (exit 1)
    if harness_error:
        print("HARNESS-ERROR:\n" + harness_error)
        if rc == 0:
            rc = 2
    path = write_evidence(ctx, len(new_viol), len(known_hit))
    dt = time.time() - ctx.t0
    print(f"{prop} tier={tier} seed={seed}: evaluations={ctx.n} distinct_nontrivial={len(ctx.nontrivial) + ctx.nontrivial_extra} "
          f"states={ctx.states} transitions={ctx.transitions} traces={ctx.traces} outcomes={len(ctx.outcomes)} "
          f"violations={len(new_viol)} known={len(known_hit)} caps={len(ctx.capped)} wall={dt:.1f}s evidence={path}")
    return rc


def replay_file(path: str) -> int:
    bind_repo()
    with open(path) as fp:
        rec = json.load(fp)
    prop = rec["property"]
    mod = importlib.import_module(f"vf.checks.{prop.lower()}")
    if "context" in rec:
        import base64
        import pickle

        modname, qual = rec["context"]["fn"].split(":")
        fn = getattr(importlib.import_module(modname), qual)
        part = run_in_fresh_fork(fn, pickle.loads(base64.b64decode(rec["context"]["chunk_pickle_b64"])))
        res = list(part.get("violations") or ())
    else:
        res = mod.replay(rec["case"])
    print(f"replaying {path}: property={prop} key={rec['key']}")
    print(f"case: {json.dumps(rec['case'])[:1500]}")
    hit = False
    for v in res:
        print(f"  observed violation key={v['key']}\n    what={v['what']}\n    detail={v.get('detail','')[:1500]}")
        hit = hit or v["key"] == rec["key"]
    if not res:
        print("  no violation observed (property holds on this case now)")
    if hit:
        print(f"VIOLATION property={prop} replay={path}")
        return 1
    return 0
