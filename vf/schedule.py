"""E3 - controlled worker pool and deviation-bounded exploration of completion schedules.

ControlledPool replaces multiprocessing.Pool inside the process under test:
  * worker functions run in-process, arguments and results travel through pickle (process isolation is modelled and an
    unpicklable task is caught), results are memoised per (function, pickled argument) across executions;
  * imap / map keep submission order (the real semantics);
  * imap_unordered yields results in an order chosen by the active Schedule among the orders FEASIBLE for P workers:
    tasks are dispatched in submission order whenever fewer than P are running, any running task may complete next.
A Schedule is a list of choices; choice 0 at every point = in-order completion; a non-zero choice is a deviation.
"""
from __future__ import annotations

import importlib
import pickle
import sys
from multiprocessing import TimeoutError as MPTimeoutError  # noqa: F401
from typing import Any, Callable, Dict, Iterable, Iterator, List, Optional, Sequence, Tuple

PATCH_MODULES = [
    "pyimpspec.analysis.fitting",
    "pyimpspec.analysis.zhit.offset",
    "pyimpspec.analysis.zhit.reconstruction",
    "pyimpspec.analysis.kramers_kronig.exploratory",
    "pyimpspec.analysis.drt.bht",
    "pyimpspec.analysis.drt.tr_rbf",
]


class Schedule:
    """Records every choice point of one execution; replays `prefix`, then takes choice 0."""

    def __init__(self, prefix: Sequence[int] = ()):
        self.prefix = list(prefix)
        self.points: List[Tuple[int, int]] = []   # (number of alternatives, choice taken)
        self.labels: List[str] = []

    def choose(self, n_alternatives: int, label: str = "") -> int:
        i = len(self.points)
        c = self.prefix[i] if i < len(self.prefix) else 0
        if not (0 <= c < n_alternatives):
            raise RuntimeError(f"schedule diverged while replaying a prefix: choice {c} of {n_alternatives} at point {i} ({label})")
        self.points.append((n_alternatives, c))
        self.labels.append(label)
        return c

    def choices(self) -> List[int]:
        return [c for _, c in self.points]

    def deviations(self) -> int:
        return sum(1 for _, c in self.points if c != 0)


class State:
    schedule: Optional[Schedule] = None
    memo: Dict[Tuple[str, bytes], bytes] = {}
    memo_enabled = True
    pools_created = 0
    pool_sizes: List[int] = []
    force_processes: Optional[int] = None      # explorer-owned pool size (None = what the library asked for)
    calls: Dict[str, int] = {}
    log: List[str] = []


def _call(func: Callable, arg: Any) -> Any:
    name = f"{getattr(func, '__module__', '?')}.{getattr(func, '__qualname__', repr(func))}"
    blob = pickle.dumps(arg)
    key = (name, blob)
    State.calls[name] = State.calls.get(name, 0) + 1
    if State.memo_enabled and key in State.memo:
        return pickle.loads(State.memo[key])
    res = func(pickle.loads(blob))
    out = pickle.dumps(res)
    if State.memo_enabled:
        State.memo[key] = out
    return pickle.loads(out)


class _Ordered:
    def __init__(self, func, items):
        self.func = func
        self.items = list(items)
        self.i = 0

    def __iter__(self):
        return self

    def __next__(self):
        return self.next()

    def next(self, timeout=None):
        if self.i >= len(self.items):
            raise StopIteration
        r = _call(self.func, self.items[self.i])
        self.i += 1
        return r


class _Unordered:
    def __init__(self, func, items, processes: int):
        self.func = func
        self.items = list(items)
        self.P = max(1, processes)
        self.next_dispatch = 0
        self.running: List[int] = []
        self.completed: List[int] = []
        State.log.append(len(self.items))   # stage size, for callers that build explicit completion orders
        self._fill()

    def _fill(self):
        while len(self.running) < self.P and self.next_dispatch < len(self.items):
            self.running.append(self.next_dispatch)
            self.next_dispatch += 1

    def __iter__(self):
        return self

    def __next__(self):
        return self.next()

    def next(self, timeout=None):
        if not self.running:
            raise StopIteration
        sch = State.schedule
        c = 0
        if sch is not None and len(self.running) > 1:
            c = sch.choose(len(self.running), f"imap_unordered:{getattr(self.func, '__name__', '?')}:running={self.running}")
        idx = self.running.pop(c)
        self.completed.append(idx)
        self._fill()
        return _call(self.func, self.items[idx])


class ControlledPool:
    def __init__(self, processes: Optional[int] = None, *args, **kwargs):
        State.pools_created += 1
        p = processes if processes else 1
        State.pool_sizes.append(p)
        self.processes = State.force_processes or p

    def __enter__(self):
        return self

    def __exit__(self, *a):
        return False

    def close(self):
        pass

    def join(self):
        pass

    def terminate(self):
        pass

    def imap(self, func, iterable, chunksize=1):
        return _Ordered(func, iterable)

    def map(self, func, iterable, chunksize=None):
        return [_call(func, x) for x in list(iterable)]

    def imap_unordered(self, func, iterable, chunksize=1):
        return _Unordered(func, iterable, self.processes)

    def apply(self, func, args=(), kwds=None):
        return func(*args, **(kwds or {}))


_ORIG: Dict[str, Any] = {}


def install() -> None:
    """Replace Pool in every pyimpspec module that uses one, and multiprocessing.Pool itself."""
    import multiprocessing

    if _ORIG:
        return
    _ORIG["multiprocessing"] = multiprocessing.Pool
    multiprocessing.Pool = ControlledPool
    for m in PATCH_MODULES:
        try:
            mod = importlib.import_module(m)
        except Exception:
            continue
        if hasattr(mod, "Pool"):
            _ORIG[m] = mod.Pool
            mod.Pool = ControlledPool


def uninstall() -> None:
    import multiprocessing

    if not _ORIG:
        return
    multiprocessing.Pool = _ORIG.pop("multiprocessing")
    for m, p in list(_ORIG.items()):
        sys.modules[m].Pool = p
        del _ORIG[m]


def reset_counters() -> None:
    State.pools_created = 0
    State.pool_sizes = []
    State.calls = {}


def feasible_orders(n: int, P: int) -> List[Tuple[int, ...]]:
    """All completion orders of n tasks on P workers (dispatch in order, complete any running)."""
    out: List[Tuple[int, ...]] = []

    def rec(running: Tuple[int, ...], nxt: int, done: Tuple[int, ...]):
        running = list(running)
        while len(running) < P and nxt < n:
            running.append(nxt)
            nxt += 1
        if not running:
            out.append(done)
            return
        for i, t in enumerate(running):
            rec(tuple(running[:i] + running[i + 1:]), nxt, done + (t,))

    rec((), 0, ())
    return out


def explore(run: Callable[[Schedule], Any], max_deviations: Optional[int], max_executions: int = 200000):
    """Deviation-bounded DFS over schedules: yields (schedule, result) for every execution with <= max_deviations
    non-default choices (None = all). `run(schedule)` must execute the system under test to completion."""
    stack: List[List[int]] = [[]]
    count = 0
    while stack:
        prefix = stack.pop()
        sch = Schedule(prefix)
        State.schedule = sch
        try:
            res = run(sch)
        finally:
            State.schedule = None
        count += 1
        yield sch, res
        if count >= max_executions:
            return
        pts = sch.points
        dev_before = 0
        devs = []
        for n_alt, c in pts:
            devs.append(dev_before)
            if c != 0:
                dev_before += 1
        for i in range(len(prefix), len(pts)):
            n_alt, c = pts[i]
            cost = devs[i] + 1
            if max_deviations is not None and cost > max_deviations:
                continue
            for alt in range(1, n_alt):
                stack.append(sch.choices()[:i] + [alt])
