"""E2 model for C15: the process-global element registry and class-level defaults.

Every history is replayed from a *hard* reset done by the harness (module dicts and the built-in classes' default
dicts restored from a snapshot taken at import - never by the reset() under test) with fresh user classes.

ops
  ["reg", tag, private]        U8 (Uz, contradicts its equation only in the minor component); tag in U1 (Ux) U2 (another class, also Ux) U3 (Uy, impedance contradicts equation)
                               U4 (R: shadows a built-in) U5 (Lab) U6 (invalid 'r') U7 (invalid 'R-x')
  ["rm", tag | "Resistor" | "list" | "unknown"]
  ["reset", elements, default_parameters]
  ["setdef", "Resistor" | "Capacitor" | "U1" | "Tlm" (own parameter) | "Tlm:subkey" | "Resistor:unknown" (both refused)]
  ["resetdef", None | "Resistor" | "[Resistor]"]
  ["probe"]                    parse_cdc on the probe codes (parsing is an operation of its own: a parser may cache what it saw,
                               so the registry state at the most recent parse is part of the canonical state)
"""
from __future__ import annotations

import json
import re
import warnings
from typing import Any, Dict, List, Optional, Tuple

DEFS = {"U1": ("Ux", False), "U2": ("Ux", False), "U3": ("Uy", True), "U4": ("R", False), "U5": ("Lab", False), "U6": ("r", False),
        "U7": ("R-x", False), "U8": ("Uz", "subtle"),
        "U9": ("U_x", False),        # a valid symbol with an underscore: listed and parsed like any other
        "U10": ("Ux", "changed")}    # U1's own class and symbol again, with an equation that now contradicts its impedance: refused
PROBES = ["R", "C", "L", "La", "Ls", "LLaLs", "Ux", "UxR", "Uy", "UyR", "Uz", "Lab", "LabL", "K", "Rx", "Tlm", "U_x", "U_xR", "RU_x"]

_SNAP: Dict[str, Any] = {}


def _snapshot():
    if _SNAP:
        return _SNAP
    warnings.simplefilter("ignore")
    import pyimpspec  # noqa
    from pyimpspec.circuit import registry as reg

    _SNAP.update(E=dict(reg._ELEMENTS), P=dict(reg._PRIVATE_ELEMENTS), DE=dict(reg._DEFAULT_ELEMENTS),
                 DP={k: dict(v) for k, v in reg._DEFAULT_ELEMENT_PARAMETERS.items()},
                 D={k: dict(c._parameter_default_value) for k, c in reg._DEFAULT_ELEMENTS.items()})
    return _SNAP


def hard_reset():
    from pyimpspec.circuit import registry as reg

    S = _snapshot()
    reg._ELEMENTS.clear()
    reg._ELEMENTS.update(S["E"])
    reg._PRIVATE_ELEMENTS.clear()
    reg._PRIVATE_ELEMENTS.update(S["P"])
    reg._DEFAULT_ELEMENTS.clear()
    reg._DEFAULT_ELEMENTS.update(S["DE"])
    reg._DEFAULT_ELEMENT_PARAMETERS.clear()
    reg._DEFAULT_ELEMENT_PARAMETERS.update({k: dict(v) for k, v in S["DP"].items()})
    for k, c in S["DE"].items():
        c._parameter_default_value.clear()
        c._parameter_default_value.update(S["D"][k])


class Ref:
    def __init__(self, S):
        self.E = {k: v.__name__ for k, v in S["E"].items()}
        self.P = set(S["P"])
        self.base_E = dict(self.E)
        self.base_P = set(self.P)
        self.defaults = {k: dict(v) for k, v in S["D"].items()}
        self.base_defaults = {k: dict(v) for k, v in S["D"].items()}
        self.userdef: Dict[str, float] = {}   # tag -> default R of the registered user class
        self.initialised: set = set()          # tags whose class went through (even failed) registration
        self.last_probe = None                 # registry state at the most recent parse_cdc (a parser may cache what it saw)

    def key(self):
        return (self.reg_key(), self.last_probe)

    def reg_key(self):
        return (tuple(sorted(self.E.items())), tuple(sorted(self.P)),
                tuple(sorted((k, tuple(sorted(v.items()))) for k, v in self.defaults.items() if v != self.base_defaults[k])),
                tuple(sorted(self.userdef.items())), tuple(sorted(self.initialised)))

    def view(self, default_only: bool, private: bool):
        keys = self.base_E.keys() if default_only else self.E.keys()
        return tuple(sorted((k, self.E[k]) for k in keys if k in self.E and (private or k not in self.P)))

    def parse(self, s: str):
        idents = re.findall(r"[A-Z][a-z0-9_]*", s)
        if "".join(idents) != s:
            return "error"
        out = []
        for i in idents:
            if i not in self.E:
                return "error"
            out.append(self.E[i])
        return tuple(out)


class Model:
    continue_after_violation = False
    isolate = True   # the registry is process-global: every replayed history runs in its own forked child

    def __init__(self, args):
        warnings.simplefilter("ignore")
        import numpy as np
        import pyimpspec
        from pyimpspec import Capacitor, Element, Resistor, get_elements, parse_cdc
        from pyimpspec.circuit import registry as reg
        from pyimpspec.circuit.registry import (ElementDefinition, ParameterDefinition, register_element, remove_elements, reset,
                                                reset_default_parameter_values)
        from pyimpspec.exceptions import ParsingError, TokenizingError

        self.np = np
        self.api = dict(Element=Element, Resistor=Resistor, Capacitor=Capacitor, get_elements=get_elements, parse_cdc=parse_cdc, reg=reg,
                        ElementDefinition=ElementDefinition, ParameterDefinition=ParameterDefinition, register_element=register_element,
                        remove_elements=remove_elements, reset=reset, reset_default_parameter_values=reset_default_parameter_values,
                        ParsingError=ParsingError, TokenizingError=TokenizingError)
        self.S = _snapshot()

    def mk(self, tag: str):
        A = self.api
        sym, bad = DEFS[tag]
        np = self.np

        class U(A["Element"]):
            def _impedance(self, f, R):
                if bad == "subtle":   # contradicts the equation only in the minor (imaginary) component: R*2 - 1e-11*f*I
                    return R * 2 + 1e-11j * f
                return (R * (3 if bad else 2)) + 0j * f

        U.__name__ = "U" + tag
        U.__qualname__ = "U" + tag
        return A["ElementDefinition"](Class=U, symbol=sym, name="n" + tag, description="d", equation="R*2" if bad != "subtle" else "R*2 - 1e-11*f*I",
                                      parameters=[A["ParameterDefinition"]("R", "ohm", "res", 1.0, 0.0, np.inf, False)])

    def initial(self):
        hard_reset()
        return {"defs": {}}, Ref(self.S)

    def cls(self, impl, tag):
        if tag == "U10":   # the class object of U1 (registered or not) under its own symbol, with a changed, inconsistent equation
            A, np = self.api, self.np
            return A["ElementDefinition"](Class=self.cls(impl, "U1").Class, symbol="Ux", name="nU1", description="d", equation="R*3",
                                          parameters=[A["ParameterDefinition"]("R", "ohm", "res", 1.0, 0.0, np.inf, False)])
        if tag not in impl["defs"]:
            impl["defs"][tag] = self.mk(tag)
        return impl["defs"][tag]

    def describe(self, op):
        return json.dumps(op)

    def enabled(self, ref: Ref, depth: int):
        ops: List[list] = []
        for t in DEFS:
            for p in (False, True):
                if t in ("U6", "U7", "U3", "U4", "U8", "U9", "U10") and p:
                    continue
                ops.append(["reg", t, p])
        for t in ("U1", "U2", "U5", "Resistor", "list", "unknown"):
            ops.append(["rm", t])
        for e in (True, False):
            for d in (True, False):
                ops.append(["reset", e, d])
        ops.append(["setdef", "Resistor"])
        ops.append(["setdef", "Capacitor"])
        ops.append(["setdef", "Tlm"])            # a container's own parameter
        ops.append(["setdef", "Tlm:subkey"])     # a sub-circuit key is not a parameter: refused
        ops.append(["setdef", "Resistor:unknown"])
        ops.append(["setdef", "Resistor:unknown-positional"])   # the positional (key, value) form of the same refused call
        ops.append(["setdef", "K"])                              # a built-in that is private (hidden from listings)
        if "U1" in ref.initialised:
            ops.append(["setdef", "U1"])
        ops.append(["resetdef", None])
        ops.append(["resetdef", "Resistor"])
        ops.append(["resetdef", "[Resistor]"])
        if ref.last_probe != ref.reg_key():
            ops.insert(0, ["probe"])
        return ops

    # ---------------------------------------------------------------------------------------
    def do_impl(self, impl, op) -> str:
        A = self.api
        try:
            if op[0] == "reg":
                A["register_element"](self.cls(impl, op[1]), private=bool(op[2]))
            elif op[0] == "rm":
                if op[1] == "Resistor":
                    A["remove_elements"](A["Resistor"])
                elif op[1] == "list":
                    A["remove_elements"]([self.cls(impl, "U1").Class, self.cls(impl, "U5").Class])
                elif op[1] == "unknown":
                    A["remove_elements"](self.mk("U5").Class)
                else:
                    A["remove_elements"](self.cls(impl, op[1]).Class)
            elif op[0] == "reset":
                A["reset"](elements=bool(op[1]), default_parameters=bool(op[2]))
            elif op[0] == "setdef":
                if op[1] == "Resistor":
                    A["Resistor"].set_default_values(R=5.0)
                elif op[1] == "Capacitor":
                    A["Capacitor"].set_default_values("C", 3e-6)
                elif op[1] == "Tlm":
                    self.S["DE"]["Tlm"].set_default_values(L=2.0)
                elif op[1] == "Tlm:subkey":
                    self.S["DE"]["Tlm"].set_default_values(X_1=5.0)
                elif op[1] == "Resistor:unknown":
                    A["Resistor"].set_default_values(Q=1.0)
                elif op[1] == "Resistor:unknown-positional":
                    A["Resistor"].set_default_values("Q", 1.0)
                elif op[1] == "K":
                    self.S["DE"]["K"].set_default_values(R=5.0)
                else:
                    self.cls(impl, op[1]).Class.set_default_values(R=5.0)
            elif op[0] == "probe":
                pass
            elif op[0] == "resetdef":
                if op[1] is None:
                    A["reset_default_parameter_values"]()
                elif op[1] == "Resistor":
                    A["reset_default_parameter_values"](A["Resistor"])
                else:
                    A["reset_default_parameter_values"]([A["Resistor"]])
            else:
                raise RuntimeError(op)
            return "ok"
        except (KeyError, ValueError, TypeError) as e:
            return type(e).__name__

    def do_ref(self, ref: Ref, op) -> str:
        if op[0] == "reg":
            t = op[1]
            sym, bad = DEFS[t]
            if not re.fullmatch(r"[A-Z][a-z0-9_]*", sym):
                return "ValueError"
            if bad == "changed":      # re-initialises U1's class (defaults back to the definition's) and is then refused by validation
                ref.initialised.add("U1")
                ref.userdef["U1"] = 1.0
                return "ValueError"
            ref.initialised.add(t)
            ref.userdef[t] = 1.0
            if bad:
                return "ValueError"
            if sym in ref.E and ref.E[sym] != "U" + t:
                return "KeyError"
            ref.E[sym] = "U" + t
            if op[2]:
                ref.P.add(sym)
            return "ok"
        if op[0] == "rm":
            if op[1] == "Resistor":
                return "ValueError"
            names = {"list": ["UU1", "UU5"], "unknown": []}.get(op[1], ["U" + op[1]])
            for nm in names:
                for k in list(ref.E):
                    if ref.E[k] == nm and k not in ref.base_E:
                        del ref.E[k]
                        ref.P.discard(k)
                        break
            return "ok"
        if op[0] == "reset":
            if op[1]:
                ref.E = dict(ref.base_E)
                ref.P = set(ref.base_P)
            if op[2]:
                ref.defaults = {k: dict(v) for k, v in ref.base_defaults.items()}
            return "ok"
        if op[0] == "setdef":
            if op[1] == "Resistor":
                ref.defaults["R"]["R"] = 5.0
            elif op[1] == "Capacitor":
                ref.defaults["C"]["C"] = 3e-6
            elif op[1] == "Tlm":
                ref.defaults["Tlm"]["L"] = 2.0
            elif op[1] in ("Tlm:subkey", "Resistor:unknown", "Resistor:unknown-positional"):
                return "KeyError"
            elif op[1] == "K":
                ref.defaults["K"]["R"] = 5.0
            else:
                ref.userdef[op[1]] = 5.0
            return "ok"
        if op[0] == "probe":
            return "ok"
        if op[0] == "resetdef":
            if op[1] is None:
                ref.defaults = {k: dict(v) for k, v in ref.base_defaults.items()}
            else:
                ref.defaults["R"] = dict(ref.base_defaults["R"])
            return "ok"
        raise RuntimeError(op)

    def observe(self, impl, with_parse: bool):
        A = self.api
        views = []
        for d_, p_ in ((False, False), (False, True), (True, False), (True, True)):
            views.append(tuple(sorted((k, v.__name__) for k, v in A["get_elements"](default_only=d_, private=p_).items())))
        defaults = {k: dict(c.get_default_values()) for k, c in self.S["DE"].items()}
        inst = {}
        reg = A["reg"]
        for sym in ("R", "C", "Ux"):
            c = reg._ELEMENTS.get(sym) if sym == "Ux" else self.S["DE"][sym]
            inst[sym] = None if c is None else (c.__name__, tuple(c().get_values().values()))
        probes = None
        if with_parse:
            pr = []
            for s in PROBES:
                try:
                    pr.append(tuple(type(e).__name__ for e in A["parse_cdc"](s).get_elements(recursive=False)))
                except (A["ParsingError"], A["TokenizingError"]):
                    pr.append("error")
                except Exception as e:
                    pr.append("CRASH:" + type(e).__name__)
            probes = tuple(pr)
            for sym in ("R", "C", "Ux"):   # defaults as seen by instances the parser creates
                try:
                    el = A["parse_cdc"](sym).get_elements()[0]
                    got = (type(el).__name__, tuple(el.get_values().values()))
                except Exception:
                    got = None
                if got != inst[sym]:
                    inst[sym] = ("parser-made instance differs", got, inst[sym])
        return views, defaults, probes, inst

    def expected(self, ref: Ref, with_parse: bool):
        views = [ref.view(False, False), ref.view(False, True), ref.view(True, False), ref.view(True, True)]
        probes = tuple(ref.parse(s) for s in PROBES) if with_parse else None
        inst = {}
        for sym in ("R", "C", "Ux"):
            if sym not in ref.E:
                inst[sym] = None
            elif sym == "Ux":
                tag = ref.E[sym][1:]
                inst[sym] = (ref.E[sym], (ref.userdef.get(tag, 1.0),))
            else:
                inst[sym] = (ref.E[sym], tuple(ref.defaults[sym].values()))
        return views, ref.defaults, probes, inst

    def apply(self, impl, ref: Ref, op):
        vs: List[dict] = []

        def viol(key, what, detail=""):
            vs.append({"key": key, "what": what, "detail": detail})

        out_i = self.do_impl(impl, op)
        out_r = self.do_ref(ref, op)
        name = op[0] + (":" + str(op[1]) if op[0] in ("reg", "rm") else "")
        if out_i != out_r:
            viol(f"outcome|{name}|impl={out_i}|model={out_r}", f"{json.dumps(op)}: implementation -> {out_i}, reference registry -> {out_r}")
            return impl, ref, vs
        probing = op[0] == "probe"
        obs = self.observe(impl, probing)
        exp = self.expected(ref, probing)
        if probing:
            ref.last_probe = ref.reg_key()
        names = ["get_elements views", "built-in default values", "parse_cdc probes", "defaults seen by new instances"]
        for i, (a, b) in enumerate(zip(obs, exp)):
            if a != b:
                detail = ""
                if i == 0:
                    labels = ["(default_only=False, private=False)", "(False, True)", "(True, False)", "(True, True)"]
                    for lab, x, y in zip(labels, a, b):
                        if x != y:
                            detail = f"get_elements{lab}: observed-only={sorted(set(x) - set(y))} expected-only={sorted(set(y) - set(x))}"
                            break
                elif i == 2:
                    detail = str([(s, x, y) for s, x, y in zip(PROBES, a, b) if x != y][:4])
                else:
                    detail = f"observed={a}\nexpected={b}"[:600]
                viol(f"observation|{names[i]}|after-{op[0]}", f"after {json.dumps(op)}: {names[i]} differ from the reference registry", detail)
                return impl, ref, vs
        # built-ins always present with their original classes
        reg = self.api["reg"]
        for k, c in self.S["DE"].items():
            if reg._ELEMENTS.get(k) is not c:
                viol("invariant|built-in-missing-or-shadowed", f"built-in symbol {k} no longer maps to its original class")
        return impl, ref, vs

    def final_check(self, impl, ref: Ref, op) -> List[dict]:
        """parse_cdc probes at the end of a history (run only in a discarded child: parsing may touch hidden parser state)."""
        obs = self.observe(impl, True)
        exp = self.expected(ref, True)
        if obs[2] != exp[2]:
            return [{"key": "observation|parse_cdc probes|at-end-of-history", "what": f"after the history ending in {json.dumps(op)} parse_cdc recognises other symbols than the registered ones",
                     "detail": str([(s, x, y) for s, x, y in zip(PROBES, obs[2], exp[2]) if x != y][:4])}]
        if obs[3] != exp[3]:
            return [{"key": "observation|defaults seen by new instances|at-end-of-history", "what": "instances created by the parser do not show the current class defaults",
                     "detail": f"observed={obs[3]} expected={exp[3]}"[:500]}]
        return []

    def canon(self, impl, ref: Ref):
        reg = self.api["reg"]
        hidden = (tuple(sorted(reg._ELEMENTS)), tuple(sorted(reg._PRIVATE_ELEMENTS)))
        return (ref.key(), hidden)


def make_model(args):
    return Model(args)
