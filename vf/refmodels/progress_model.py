"""E2 model for the Progress counter (C18): histories of the operations the analyses use, on up to two nested contexts.

ops
  ["enter", total]            opens a (nested) context with that total
  ["inc", level]              Progress.increment() on the context at nesting level (0 = outer, 1 = inner)
  ["msg", level]              Progress.set_message("...") (forced update)
  ["exit"]                    leaves the innermost context (increments once more, like the `with` block does)
  ["reg"] / ["unreg"]         register a second callback / unregister it
Reference: two integers per context; a ValueError exactly when i would exceed total; every notification carries
0 <= progress <= 1 and a str message and reaches exactly the registered callbacks.
"""
from __future__ import annotations

import json
import warnings
from typing import Any, Dict, List, Tuple

TOTALS = [1, 2, 3, 7]


class Ref:
    def __init__(self):
        self.ctx: List[List[int]] = []   # [i, total] per open context
        self.second = False
        self.dead = False

    def key(self):
        return (tuple(tuple(c) for c in self.ctx), self.second, self.dead)


class Model:
    continue_after_violation = False
    isolate = False

    def __init__(self, args):
        warnings.simplefilter("ignore")
        import pyimpspec.progress as P

        self.P = P
        self.max_depth = int(args.get("nesting", 2))

    def initial(self):
        P = self.P
        P._CALLBACKS.clear()
        P._RECENT_PROGRESS = -1.0
        events: List[Tuple[int, Any, Any]] = []
        P.register(lambda *a, **k: events.append((1, k.get("progress"), k.get("message"))))
        return {"events": events, "stack": [], "second_id": None}, Ref()

    def describe(self, op):
        return json.dumps(op)

    def enabled(self, ref: Ref, depth: int):
        if ref.dead:
            return []
        ops: List[list] = []
        if len(ref.ctx) < self.max_depth:
            for t in TOTALS:
                ops.append(["enter", t])
        for lvl in range(len(ref.ctx)):
            ops.append(["inc", lvl])
            ops.append(["msg", lvl])
        if ref.ctx:
            ops.append(["exit"])
        ops.append(["unreg"] if ref.second else ["reg"])
        return ops

    def apply(self, impl, ref: Ref, op):
        P = self.P
        vs: List[dict] = []

        def viol(key, what, detail=""):
            vs.append({"key": key, "what": what, "detail": detail})

        ev = impl["events"]
        n0 = len(ev)
        raised = None
        try:
            if op[0] == "enter":
                p = P.Progress(f"ctx{len(impl['stack'])}", total=int(op[1]))
                p.__enter__()
                impl["stack"].append(p)
            elif op[0] == "inc":
                impl["stack"][op[1]].increment()
            elif op[0] == "msg":
                impl["stack"][op[1]].set_message(f"message {len(ev)}")
            elif op[0] == "exit":
                p = impl["stack"].pop()
                p.__exit__(None, None, None)
            elif op[0] == "reg":
                impl["second_id"] = P.register(lambda *a, **k: ev.append((2, k.get("progress"), k.get("message"))))
            elif op[0] == "unreg":
                if not P.unregister(impl["second_id"]):
                    viol("callbacks|unregister-failed", "unregister() returned False for a registered handle")
        except ValueError as e:
            raised = e
        except Exception as e:
            viol(f"progress|unexpected-exception|{type(e).__name__}", f"{op}: {type(e).__name__}: {str(e)[:80]}")
            return impl, ref, vs
        # reference
        expect_overflow = False
        if op[0] == "enter":
            ref.ctx.append([0, int(op[1])])
        elif op[0] == "inc":
            ref.ctx[op[1]][0] += 1
            expect_overflow = ref.ctx[op[1]][0] > ref.ctx[op[1]][1]
        elif op[0] == "exit":
            c = ref.ctx.pop()
            expect_overflow = c[0] + 1 > c[1]
        elif op[0] == "reg":
            ref.second = True
        elif op[0] == "unreg":
            ref.second = False
        if expect_overflow != (raised is not None):
            viol(f"progress|overflow-{'not-' if expect_overflow else ''}reported|{op[0]}", f"{op}: counter overflow expected={expect_overflow}, ValueError raised={raised is not None}")
        if expect_overflow:
            ref.dead = True   # the analysis would have aborted here: no futures
        new = ev[n0:]
        for who, prog, msg in new:
            if not isinstance(prog, (int, float)) or not (0.0 <= prog <= 1.0) or prog != prog:
                viol("progress|fraction-outside-[0,1]", f"{op}: notification with progress={prog!r}")
            if not isinstance(msg, str):
                viol("progress|message-not-a-string", f"{op}: notification with message={msg!r}")
        if new:
            ones = [e for e in new if e[0] == 1]
            twos = [e for e in new if e[0] == 2]
            second_active = ref.second and op[0] != "reg"
            if op[0] == "unreg":
                second_active = False
            if second_active and [e[1:] for e in ones] != [e[1:] for e in twos]:
                viol("callbacks|registered-callback-missed-notifications", f"{op}: the two registered callbacks received different notifications")
            if not second_active and twos:
                viol("callbacks|unregistered-callback-notified", f"{op}: an unregistered callback was notified")
        if op[0] in ("msg",) and not new and raised is None:
            viol("progress|forced-update-not-delivered", f"{op}: set_message (forced) delivered no notification")
        return impl, ref, vs

    def canon(self, impl, ref: Ref):
        return (ref.key(), round(self.P._RECENT_PROGRESS, 9))


def make_model(args):
    return Model(args)
