"""E2 model for C14: the element parameter API as a state machine, with copy/deepcopy/re-parse oracles.

ops (JSON-able lists)
  ["set_values"|"set_lower"|"set_upper"|"set_fixed", "kw"|"pos", [[key, value], ...]]
  ["set_label", label]                 label may be a non-string (5) to probe the TypeError path
  ["reset_parameters", [keys]]         [] = all
  ["reset_parameter", key]
  ["invalid", kind]                    unknown-key | odd-positional | key-twice | non-numeric | non-bool-fixed
  ["set_sub", key, "open"|"short"|"R"|"RC"]      containers only
  ["mutate_sub", key]                  containers only: change a value of an element inside a sub-circuit
"""
from __future__ import annotations

import copy
import json
import math
import warnings
from typing import Any, Dict, List, Optional, Tuple

from vf.util import exc_signature

inf = math.inf
REFUSAL = (KeyError, ValueError, TypeError)


def fnum(x):
    if isinstance(x, str):
        return float(x)
    return x


class Ref:
    def __init__(self, params: Dict[str, List[Any]], label: str, subs: Optional[Dict[str, str]]):
        self.params = params  # key -> [value, lower, upper, fixed]
        self.label = label
        self.subs = subs      # key -> canonical text of the sub-circuit, containers only

    def key(self):
        return (tuple((k, *v) for k, v in self.params.items()), self.label, tuple(sorted(self.subs.items())) if self.subs is not None else None)

    def within_limits(self) -> bool:
        return all(v[1] <= v[0] <= v[2] for v in self.params.values())


class Model:
    continue_after_violation = False

    def __init__(self, args: dict):
        warnings.simplefilter("ignore")
        import numpy as np

        np.seterr(all="ignore")
        from pyimpspec import parse_cdc
        from pyimpspec.circuit.base import Container
        from pyimpspec.circuit.registry import get_elements

        self.sym = args["sym"]
        self.cls = get_elements(private=True)[self.sym]
        self.parse_cdc = parse_cdc
        self.is_container = issubclass(self.cls, Container)
        self.keys = list(self.cls.get_default_values())
        self.max_keys = args.get("param_keys") or self.keys
        self.D = {k: (self.cls.get_default_value(k), self.cls.get_default_lower_limit(k), self.cls.get_default_upper_limit(k),
                      self.cls.is_fixed_by_default(k)) for k in self.keys}
        self.rich = bool(args.get("rich", False))

    # -------------------------------------------------------------------------------------------
    def menus(self, k: str):
        dv, dl, du, _ = self.D[k]
        below = dl / 10 if (dl > 0 and math.isfinite(dl)) else (-1.0 if math.isfinite(dl) else -1e6)
        above = du * 10 if (math.isfinite(du) and du > 0) else 1e12
        top = du if math.isfinite(du) else 1e9
        bottom = dl if math.isfinite(dl) else -1e3
        vals = [below, bottom, dv, top, above]
        lows = [-inf, below, bottom, dv, above]
        ups = [below, dv, top, above * 10, inf]
        return (list(dict.fromkeys(vals)), list(dict.fromkeys(lows)), list(dict.fromkeys(ups)))

    def initial(self):
        e = self.cls()
        return e, self.ref_of_defaults()

    def ref_of_defaults(self) -> Ref:
        subs = None
        if self.is_container:
            subs = {k: self.sub_text(v) for k, v in self.cls().get_subcircuits().items()}
        return Ref({k: list(self.D[k]) for k in self.keys}, "", subs)

    @staticmethod
    def sub_text(con) -> str:
        if con is None:
            return "open"
        return con.to_string(17)

    def describe(self, op) -> str:
        return json.dumps(op)

    def enabled(self, ref: Ref, depth: int) -> List[list]:
        ops: List[list] = []
        for k in self.max_keys:
            vals, lows, ups = self.menus(k)
            for v in vals:
                ops.append(["set_values", "kw", [[k, v]]])
            for v in lows:
                ops.append(["set_lower", "kw", [[k, v]]])
            for v in ups:
                ops.append(["set_upper", "pos", [[k, v]]])
            ops.append(["set_fixed", "kw", [[k, True]]])
            ops.append(["set_fixed", "pos", [[k, False]]])
            ops.append(["reset_parameter", k])
        ops.append(["set_values", "pos", [[self.keys[0], self.menus(self.keys[0])[0][3]]]])
        if len(self.keys) >= 2:
            a, b = self.keys[0], self.keys[1]
            # two keys in one call; the second one is refused in some states (first stays applied)
            ops.append(["set_lower", "kw", [[a, self.menus(a)[1][2]], [b, self.menus(b)[1][4]]]])
            ops.append(["set_upper", "pos", [[a, self.menus(a)[2][1]], [b, self.menus(b)[2][0]]]])
            ops.append(["set_values", "kw", [[a, self.menus(a)[0][1]], [b, self.menus(b)[0][3]]]])
            ops.append(["reset_parameters", [b]])
        for lb in ["", "a", " a b ", "12", "é", 5]:
            ops.append(["set_label", lb])
        ops.append(["reset_parameters", []])
        for kind in ("unknown-key", "odd-positional", "key-twice", "non-numeric", "non-bool-fixed"):
            ops.append(["invalid", kind])
        if self.is_container:
            key = sorted(ref.subs)[0]
            key2 = sorted(ref.subs)[-1]
            for what in ("open", "short", "R", "RC"):
                ops.append(["set_sub", key, what])
            ops.append(["set_sub", key2, "R"])
            ops.append(["mutate_sub", key])
            ops.append(["mutate_sub", key2])
        return ops

    # -------------------------------------------------------------------------------------------
    def impl_call(self, e, op):
        """Executes op on element e. Returns None or the exception."""
        kind = op[0]
        try:
            if kind in ("set_values", "set_lower", "set_upper", "set_fixed"):
                fn = {"set_values": e.set_values, "set_lower": e.set_lower_limits, "set_upper": e.set_upper_limits, "set_fixed": e.set_fixed}[kind]
                pairs = [[k, fnum(v)] for k, v in op[2]]
                if op[1] == "kw":
                    fn(**{k: v for k, v in pairs})
                else:
                    flat = []
                    for k, v in pairs:
                        flat += [k, v]
                    fn(*flat)
            elif kind == "set_label":
                e.set_label(op[1])
            elif kind == "reset_parameters":
                e.reset_parameters(*op[1])
            elif kind == "reset_parameter":
                e.reset_parameter(op[1])
            elif kind == "invalid":
                k0 = self.keys[0]
                if op[1] == "unknown-key":
                    e.set_values(nope=1.0)
                elif op[1] == "odd-positional":
                    e.set_lower_limits(k0)
                elif op[1] == "key-twice":
                    e.set_upper_limits(k0, 5.0, **{k0: 6.0})
                elif op[1] == "non-numeric":
                    e.set_values(**{k0: "abc"})
                elif op[1] == "non-bool-fixed":
                    e.set_fixed(**{k0: 1})
            elif kind == "set_sub":
                e.set_subcircuits(**{op[1]: self.make_sub(op[2])})
            elif kind == "mutate_sub":
                con = e.get_subcircuits()[op[1]]
                if con is not None and con.get_elements():
                    el = con.get_elements()[0]
                    k = list(el.get_values())[0]
                    el.set_values(**{k: el.get_value(k) * 2 + 1})
            else:
                raise RuntimeError(f"unknown op {op}")
        except REFUSAL as ex:
            return ex
        return None

    def make_sub(self, what: str):
        from pyimpspec import Capacitor, Resistor, Series

        if what == "open":
            return None
        if what == "short":
            return Series([])
        if what == "R":
            return Series([Resistor(R=3.0)])
        return Series([Resistor(R=3.0), Capacitor(C=2e-5)])

    def ref_step(self, ref: Ref, op, impl_after=None) -> bool:
        """Applies op to the reference. Returns True if the reference refuses (raises) the call."""
        kind = op[0]
        P = ref.params
        if kind == "set_values":
            for k, v in op[2]:
                P[k][0] = float(fnum(v))
            return False
        if kind == "set_lower":
            for k, v in op[2]:
                v = float(fnum(v))
                if v >= P[k][2]:
                    return True
                P[k][0] = max(P[k][0], v)
                P[k][1] = v
            return False
        if kind == "set_upper":
            for k, v in op[2]:
                v = float(fnum(v))
                if v <= P[k][1]:
                    return True
                P[k][0] = min(P[k][0], v)
                P[k][2] = v
            return False
        if kind == "set_fixed":
            for k, v in op[2]:
                P[k][3] = bool(v)
            return False
        if kind == "set_label":
            lb = op[1]
            if not isinstance(lb, str):
                return True
            lb = lb.strip()
            if lb != "" and (not lb.isascii() or all(c.isdigit() for c in lb)):
                return True
            ref.label = lb
            return False
        if kind == "reset_parameters":
            for k in (op[1] or self.keys):
                P[k] = list(self.D[k])
            return False
        if kind == "reset_parameter":
            P[op[1]] = list(self.D[op[1]])
            return False
        if kind == "invalid":
            return True
        if kind == "set_sub":
            ref.subs[op[1]] = self.sub_text(self.make_sub(op[2]))
            return False
        if kind == "mutate_sub":
            # the reference learns the new text from a scratch element mutated the same way (sub-circuit content is C03's subject)
            if impl_after is not None:
                ref.subs[op[1]] = self.sub_text(impl_after.get_subcircuits()[op[1]])
            return False
        raise RuntimeError(op)

    def observe(self, e) -> tuple:
        P = tuple((k, float(e.get_value(k)), float(e.get_lower_limit(k)), float(e.get_upper_limit(k)), bool(e.is_fixed(k))) for k in self.keys)
        subs = None
        if self.is_container:
            subs = tuple(sorted((k, self.sub_text(v)) for k, v in e.get_subcircuits().items()))
        return (P, e.get_label(), subs)

    def apply(self, impl, ref: Ref, op):
        vs: List[dict] = []

        def viol(key, what, detail=""):
            vs.append({"key": key, "what": what, "detail": detail})

        kind = op[0]
        name = kind if kind != "invalid" else f"invalid:{op[1]}"
        try:
            exc = self.impl_call(impl, op)
        except Exception as e:
            viol(f"api|{name}|unexpected-exception|{type(e).__name__}", f"{name} raised {type(e).__name__}: {str(e)[:80]} (not a KeyError/ValueError/TypeError refusal)")
            return impl, ref, vs
        before = copy.deepcopy(ref.params), ref.label
        refused = self.ref_step(ref, op, impl)
        if refused and exc is None:
            viol(f"api|{name}|accepted-but-must-be-refused", f"{name} {op[1:]} was accepted although the reference machine refuses it")
        elif not refused and exc is not None:
            what = "reset" if kind.startswith("reset") else name
            viol(f"api|{what}|refused-but-valid|{type(exc).__name__}", f"{name} {json.dumps(op[1:])} raised {type(exc).__name__}: {str(exc)[:90]} although it is a valid call in this state")
            return impl, ref, vs
        obs = self.observe(impl)
        exp = (tuple((k, *ref.params[k]) for k in self.keys), ref.label, tuple(sorted(ref.subs.items())) if ref.subs is not None else None)
        if obs != exp:
            field = "label" if obs[1] != exp[1] else ("sub-circuits" if obs[2] != exp[2] else "parameters")
            viol(f"state|{name}|{field}-differ", f"after {name} the element reads back differently from the reference machine ({field})",
                 f"observed={obs}\nexpected={exp}")
            return impl, ref, vs
        for k in self.keys:
            if not (ref.params[k][1] < ref.params[k][2]):
                viol("state|lower-not-below-upper", f"lower limit is not strictly below the upper limit for {k}")
        # class defaults and fresh instances untouched
        fresh = self.cls()
        if self.observe(fresh)[0] != tuple((k, *self.D[k]) for k in self.keys) or fresh.get_label() != "":
            viol(f"isolation|class-defaults-changed|{name}", f"after {name} on an instance a fresh {self.sym}() no longer shows the class defaults",
                 f"{self.observe(fresh)}")
        if self.is_container:
            f2 = self.cls()
            s1, s2 = fresh.get_subcircuits(), f2.get_subcircuits()
            for k in s1:
                if s1[k] is not None and s1[k] is s2[k]:
                    viol("isolation|fresh-containers-share-subcircuit", f"two fresh {self.sym}() instances share the sub-circuit object {k}")
        # copy / deepcopy / re-parse
        if ref.within_limits():
            vs.extend(self.check_copies(impl, obs))
        return impl, ref, vs

    PROBES = [["set_values", "kw", None], ["set_upper", "kw", None], ["set_lower", "kw", None], ["set_fixed", "kw", None], ["set_label", "zz"]]

    def probe_ops(self, e) -> List[list]:
        k = self.keys[0]
        v, lo, hi = e.get_value(k), e.get_lower_limit(k), e.get_upper_limit(k)
        mid_hi = v + 1.0 if math.isinf(hi) else (v + hi) / 2 if hi > v else hi * 2 + 1
        mid_lo = v - 1.0 if math.isinf(lo) else (v + lo) / 2 if lo < v else lo - 1
        ops = [["set_values", "kw", [[k, v * 0.5 + 0.125]]], ["set_upper", "kw", [[k, mid_hi if mid_hi > lo else hi]]],
               ["set_lower", "kw", [[k, mid_lo if mid_lo < hi else lo]]], ["set_fixed", "kw", [[k, not e.is_fixed(k)]]], ["set_label", "zz"]]
        if self.is_container:
            ops.append(["mutate_sub", sorted(e.get_subcircuits())[0]])
            ops.append(["set_sub", sorted(e.get_subcircuits())[-1], "RC"])
        return ops

    def check_copies(self, impl, obs) -> List[dict]:
        from pyimpspec import Circuit, Series

        vs: List[dict] = []

        def viol(key, what, detail=""):
            vs.append({"key": key, "what": what, "detail": detail})

        makers = [("copy", lambda x: copy.copy(x)), ("deepcopy", lambda x: copy.deepcopy(x)),
                  ("reparse", lambda x: self.parse_cdc(x.to_string(17)).get_elements(recursive=False)[0])]
        for name, mk in makers:
            if name == "reparse" and not self.label_is_serialisable(impl.get_label()):
                continue
            try:
                c = mk(impl)
            except Exception as e:
                viol(f"copy|{name}-raises|{type(e).__name__}", f"{name} of an element whose values lie within their limits raised {type(e).__name__}: {str(e)[:80]}")
                continue
            if c is impl:
                viol(f"copy|{name}-returns-same-object", f"{name} returned the original object")
                continue
            oc = self.observe(c)
            if oc != obs:
                viol(f"copy|{name}-not-equal", f"{name} differs from the original", f"copy={oc}\noriginal={obs}")
                continue
            if name == "reparse":
                continue
            # independence in both directions
            for p in self.probe_ops(impl):
                c2 = mk(impl)
                self.impl_call(c2, p)
                if self.observe(impl) != obs:
                    viol(f"copy|{name}-not-independent|{p[0]}-on-copy-changes-original", f"{p[0]} on a {name} changed the original")
                    break
                src = mk(impl)          # stand-in original (just shown to be equal to impl)
                c3 = mk(src)
                o3 = self.observe(c3)
                self.impl_call(src, p)
                if self.observe(c3) != o3:
                    viol(f"copy|{name}-not-independent|{p[0]}-on-original-changes-copy", f"{p[0]} on the original changed its {name}")
                    break
        # an element and the circuit that contains it keep their relation under deepcopy
        try:
            circ = Circuit(Series([impl]))
            c2, e2 = copy.deepcopy((circ, impl))
            if c2.get_elements(recursive=False)[0] is not e2:
                viol("copy|deepcopy-pair-unrelated", "deepcopy((circuit, element)) returns an element that is not the element of the copied circuit")
        except Exception as e:
            viol(f"copy|deepcopy-pair-raises|{type(e).__name__}", f"deepcopy((circuit, element)) raised {type(e).__name__}")
        return vs

    @staticmethod
    def label_is_serialisable(lb: str) -> bool:
        # labels the CDC syntax cannot carry are C03's known findings, not C14's subject
        if lb == "":
            return True
        if not (lb[0].isalnum() or lb[0] == "_"):
            return False
        depth = 0
        for ch in lb:
            if ch == "{":
                depth += 1
            elif ch == "}":
                depth -= 1
                if depth < 0:
                    return False
        return True

    def canon(self, impl, ref: Ref):
        return ref.key()


def make_model(args):
    return Model(args)
