"""E2 model for C05: DataSet histories against a list-of-triples reference.

ops (JSON-able lists)
  ["construct", "asc"|"desc", [[index, bool], ...] | None]
  ["set_mask", [[index, bool], ...]]
  ["set_mask_np", [[index, bool], ...]]      the same dictionary with numpy.int64 keys and numpy.bool_ values (documented as accepted)
  ["set_mask_invalid", kind, flag]           a dictionary that must be refused with TypeError *after* a valid entry {0: flag}; state unchanged
  ["low_pass", cutoff] / ["high_pass", cutoff]
  ["subtract", "scalar"|"vector"]
  ["json", [dropped optional keys]]          to_dict -> json.dumps -> json.loads -> drop keys -> from_dict
  ["from_dict_twice", [dropped keys]]        two imports of the *same* dict object
  ["duplicate"] / ["average"] (with a shifted copy) / ["average1"] (a list of exactly one)
"""
from __future__ import annotations

import copy
import itertools
import json
import warnings
from typing import Any, Dict, List, Optional, Tuple

from vf.util import exc_signature, norm_msg

OPTIONAL_KEYS = ["version", "mask", "path", "label", "uuid"]


def points(n: int) -> List[Tuple[float, complex]]:
    """Physical points, listed in descending frequency order, with pairwise distinct small-integer impedances."""
    return [(10.0 ** (n - 1 - i), complex(i + 1, -10 * (i + 1))) for i in range(n)]


def mask_menu(n: int, max_keys: int) -> List[List[List[Any]]]:
    keys = list(range(-1, n + 1))
    out: List[List[List[Any]]] = [[]]
    for r in range(1, max_keys + 1):
        for ks in itertools.combinations(keys, r):
            for vals in itertools.product([True, False], repeat=r):
                out.append([[k, v] for k, v in zip(ks, vals)])
    return out


class Ref:
    def __init__(self, pts: List[List[Any]], label: str, path: str):
        self.pts = pts  # [f, Z, masked] sorted by descending f
        self.label = label
        self.path = path

    def key(self):
        return tuple((f, z, m) for f, z, m in self.pts)


class Model:
    continue_after_violation = False

    def __init__(self, args: dict):
        warnings.simplefilter("ignore")
        self.n = int(args["n"])
        self.max_keys = int(args.get("max_keys", 2))
        self.init_max_keys = int(args.get("init_max_keys", self.max_keys))
        import numpy as np
        from pyimpspec import DataSet

        self.np = np
        self.DataSet = DataSet
        self.pts = points(self.n)

    def initial(self):
        return None, None

    def describe(self, op) -> str:
        return json.dumps(op)

    def enabled(self, ref, depth: int) -> List[list]:
        n = self.n
        if ref is None:
            ops = []
            for order in ("desc", "asc"):
                ops.append(["construct", order, None])
                for m in mask_menu(n, self.init_max_keys):
                    ops.append(["construct", order, m])
                for m in mask_menu(n, 1)[1:]:
                    ops.append(["construct", order, m, "np"])
            return ops
        ops: List[list] = []
        for m in mask_menu(n, self.max_keys):
            ops.append(["set_mask", m])
        for m in mask_menu(n, 1)[1:]:
            ops.append(["set_mask_np", m])
        if n >= 2:
            ops.append(["set_mask_np", [[0, True], [n - 1, True]]])
        for kind in ("value-none-last", "value-float-last", "key-string-last", "key-float-last", "value-none-first", "not-a-dict"):
            for flag in (True, False):
                ops.append(["set_mask_invalid", kind, flag])
        fs = sorted(p[0] for p in self.pts)
        cuts = []
        for i, f in enumerate(fs):
            cuts.append(f)
            cuts.append(f * 3.0)
        cuts.append(fs[0] / 3.0)
        for c in sorted(set(cuts)):
            ops.append(["low_pass", c])
            ops.append(["high_pass", c])
        ops.append(["subtract", "scalar"])
        ops.append(["subtract", "vector"])
        ops.append(["json", []])
        for k in OPTIONAL_KEYS:
            ops.append(["json", [k]])
        ops.append(["json", list(OPTIONAL_KEYS)])
        ops.append(["from_dict_twice", []])
        ops.append(["from_dict_twice", ["version"]])
        ops.append(["duplicate"])
        ops.append(["average"])
        ops.append(["average1"])   # the boundary count: a list holding exactly this one data set
        return ops

    # -------------------------------------------------------------------------------------------
    def apply(self, impl, ref, op):
        np, DataSet = self.np, self.DataSet
        kind = op[0]
        vs: List[dict] = []
        retained = None

        def viol(key, what, detail=""):
            vs.append({"key": key, "what": what, "detail": detail})

        try:
            if kind == "construct":
                order, m = op[1], op[2]
                pts = list(self.pts) if order == "desc" else list(reversed(self.pts))
                f = np.array([p[0] for p in pts])
                Z = np.array([p[1] for p in pts])
                mask = None if m is None else {int(k): bool(v) for k, v in m}
                snapshot = copy.deepcopy(mask)
                if len(op) > 3 and op[3] == "np":
                    mask = {np.int64(k): np.bool_(v) for k, v in mask.items()}
                impl = DataSet(f, Z, mask=mask, label="lbl", path="some/file.csv")
                if {int(k): bool(v) for k, v in (mask or {}).items()} != (snapshot or {}):
                    viol(f"caller-dict-mutated|construct|{order}", f"DataSet({order} data, mask=...) altered the caller's mask dictionary",
                         f"before={snapshot} after={mask}")
                flags = [bool((snapshot or {}).get(i, False)) for i in range(len(pts))]
                trip = [[p[0], p[1], fl] for p, fl in zip(pts, flags)]
                trip.sort(key=lambda t: -t[0])
                ref = Ref(trip, "lbl", "some/file.csv")
                if not np.array_equal(f, np.array([p[0] for p in pts])):
                    viol("caller-array-mutated|construct", "constructor altered the caller's frequency array")
            elif kind == "set_mask":
                mask = {int(k): bool(v) for k, v in op[1]}
                snapshot = copy.deepcopy(mask)
                impl.set_mask(mask)
                if mask != snapshot:
                    viol("caller-dict-mutated|set_mask", "set_mask altered the caller's mask dictionary", f"before={snapshot} after={mask}")
                if len(snapshot) == 0:
                    for t in ref.pts:
                        t[2] = False
                else:
                    for k, v in snapshot.items():
                        if 0 <= k < len(ref.pts):
                            ref.pts[k][2] = v
            elif kind == "set_mask_np":
                impl.set_mask({np.int64(k): np.bool_(v) for k, v in op[1]})
                for k, v in op[1]:
                    if 0 <= int(k) < len(ref.pts):
                        ref.pts[int(k)][2] = bool(v)
            elif kind == "set_mask_invalid":
                n_ = len(ref.pts)
                bad = {"value-none-last": {0: bool(op[2]), n_ - 1 if n_ > 1 else 1: None}, "value-float-last": {0: bool(op[2]), 1: 1.0},
                       "key-string-last": {0: bool(op[2]), "1": True}, "key-float-last": {0: bool(op[2]), 1.5: True},
                       "value-none-first": {1: None, 0: bool(op[2])}, "not-a-dict": [(0, bool(op[2]))]}[op[1]]
                try:
                    impl.set_mask(bad)
                    viol(f"set_mask|accepted-invalid|{op[1]}", f"set_mask({bad!r}) was accepted although the documentation requires integer keys and boolean values")
                except TypeError:
                    pass   # refused as documented; the state must be unchanged (checked below against the unchanged reference)
            elif kind == "low_pass":
                impl.low_pass(float(op[1]))
                for t in ref.pts:
                    if t[0] > float(op[1]):
                        t[2] = True
            elif kind == "high_pass":
                impl.high_pass(float(op[1]))
                for t in ref.pts:
                    if t[0] < float(op[1]):
                        t[2] = True
            elif kind == "subtract":
                if op[1] == "scalar":
                    arr = np.array([complex(0.5, 0.25)])
                    impl.subtract_impedances(arr)
                    for t in ref.pts:
                        t[1] = t[1] - complex(0.5, 0.25)
                else:
                    vals = [complex(0.125 * (i + 1), -0.5 * (i + 1)) for i in range(len(ref.pts))]
                    impl.subtract_impedances(np.array(vals))
                    for t, v in zip(ref.pts, vals):
                        t[1] = t[1] - v
            elif kind in ("json", "from_dict_twice"):
                retained_ref = copy.deepcopy(ref)
                d = impl.to_dict()
                d = json.loads(json.dumps(d))
                for k in op[1]:
                    d.pop(k, None)
                snapshot = copy.deepcopy(d)
                old_uuid = impl.uuid
                try:
                    impl2 = DataSet.from_dict(d)
                except Exception as e:
                    viol(f"from_dict|raises|{type(e).__name__}|dropped={','.join(op[1]) or 'none'}",
                         f"from_dict raised {type(e).__name__}: {str(e)[:60]} for an exported dictionary without optional keys {op[1]}")
                    return impl, ref, vs
                if d != snapshot:
                    viol("caller-dict-mutated|from_dict", "from_dict altered the dictionary passed by the caller",
                         f"keys before={sorted(snapshot)} after={sorted(d)}")
                if kind == "from_dict_twice":
                    try:
                        impl2 = DataSet.from_dict(d)
                    except Exception as e:
                        viol(f"from_dict|second-import-raises|{type(e).__name__}",
                             f"importing the same dictionary object a second time raised {type(e).__name__}: {str(e)[:60]}")
                        return impl, ref, vs
                if "uuid" not in op[1] and impl2.uuid != old_uuid:
                    viol("from_dict|uuid-lost", "uuid not preserved by export/import")
                if "mask" in op[1]:
                    for t in ref.pts:
                        t[2] = False
                if "label" in op[1]:
                    ref.label = "file" if "path" not in op[1] else ""
                if "path" in op[1]:
                    ref.path = ""
                retained = (impl, retained_ref, kind)
                impl = impl2
            elif kind == "duplicate":
                old = impl.uuid
                retained = (impl, copy.deepcopy(ref), "duplicate")
                impl = DataSet.duplicate(impl)
                if impl.uuid == old:
                    viol("duplicate|same-uuid", "duplicate kept the uuid")
            elif kind == "average":
                # the average of this data set and a shifted copy of it; both operands are looked at again afterwards
                other = DataSet.duplicate(impl)
                shift = complex(0.5, 0.25)
                other.subtract_impedances(np.array([shift]))
                ref_other = copy.deepcopy(ref)
                for t in ref_other.pts:
                    t[1] = t[1] - shift
                retained = (impl, copy.deepcopy(ref), "average")
                impl = DataSet.average([impl, other], label="lbl")
                for t, o in zip(ref.pts, ref_other.pts):
                    t[1] = (t[1] + o[1]) / 2
                    t[2] = False
                ref.path = ""
                for x in self.check_state(other, ref_other, "average(second operand)"):
                    x["key"] = "alias|operand-changed|" + x["key"]
                    vs.append(x)
            elif kind == "average1":
                retained = (impl, copy.deepcopy(ref), "average")
                impl = DataSet.average([impl], label="lbl")
                for t in ref.pts:
                    t[2] = False
                ref.path = ""
            else:
                raise ValueError(f"unknown op {op}")
        except Exception as e:
            viol(f"op-raises|{kind}|{type(e).__name__}|{exc_signature(e)}", f"{kind} raised {type(e).__name__}: {str(e)[:80]}")
            return impl, ref, vs
        vs.extend(self.check_state(impl, ref, kind + (":" + str(op[1]) if kind == "construct" else "")))
        # an object that an earlier operation derived this one from must not change through this one (shared arrays / dictionaries)
        if retained is not None:
            try:
                impl._vf_retained = retained
            except Exception:
                pass
        prev = getattr(impl, "_vf_retained", None)
        if prev is not None:
            for x in self.check_state(prev[0], prev[1], f"{kind}-on-the-object-derived-by-{prev[2]}" if retained is None else prev[2]):
                x["key"] = "alias|source-object-changed|" + x["key"]
                x["what"] = "the data set this one was derived from changed: " + x["what"]
                vs.append(x)
        return impl, ref, vs

    # -------------------------------------------------------------------------------------------
    def check_state(self, ds, ref: Ref, after: str) -> List[dict]:
        np = self.np
        vs: List[dict] = []

        def viol(key, what, detail=""):
            vs.append({"key": key, "what": what, "detail": detail})

        f_all = [float(x) for x in ds.get_frequencies(masked=None)]
        Z_all = [complex(x) for x in ds.get_impedances(masked=None)]
        mask = ds.get_mask()
        exp_f = [t[0] for t in ref.pts]
        exp_Z = [t[1] for t in ref.pts]
        exp_m = {i: bool(t[2]) for i, t in enumerate(ref.pts)}
        if f_all != sorted(f_all, reverse=True):
            viol(f"order|not-descending|after-{after}", "points are not in descending frequency order", f"{f_all}")
        if f_all != exp_f or Z_all != exp_Z:
            viol(f"pairing|frequency-impedance|after-{after}", "frequency/impedance pairs differ from the reference model",
                 f"observed={list(zip(f_all, Z_all))} expected={list(zip(exp_f, exp_Z))}")
            return vs
        if {int(k): bool(v) for k, v in mask.items()} != exp_m:
            viol(f"mask|wrong-points|after-{after}", "mask flags belong to the wrong points (differs from the reference model)",
                 f"observed={mask} expected={exp_m} frequencies={f_all}")
            return vs
        for flag in (False, True):
            ef = [t[0] for t in ref.pts if bool(t[2]) == flag]
            eZ = [t[1] for t in ref.pts if bool(t[2]) == flag]
            of = [float(x) for x in ds.get_frequencies(masked=flag)]
            oZ = [complex(x) for x in ds.get_impedances(masked=flag)]
            if of != ef or oZ != eZ:
                viol(f"observer|get_frequencies/get_impedances(masked={flag})", f"masked={flag} view differs from the reference model",
                     f"observed={list(zip(of, oZ))} expected={list(zip(ef, eZ))}")
            if ds.get_num_points(masked=flag) != len(ef):
                viol(f"observer|get_num_points(masked={flag})", "point count differs")
            mags = [float(x) for x in ds.get_magnitudes(masked=flag)]
            if len(mags) != len(eZ) or any(abs(a - abs(z)) > 1e-14 * abs(z) for a, z in zip(mags, eZ)):
                viol(f"observer|get_magnitudes(masked={flag})", "magnitudes differ from |Z| of the reference points")
            ph = [float(x) for x in ds.get_phases(masked=flag)]
            if len(ph) != len(eZ) or any(abs(a - float(np.angle(z, deg=True))) > 1e-12 for a, z in zip(ph, eZ)):
                viol(f"observer|get_phases(masked={flag})", "phases differ")
            bf, bm, bp = ds.get_bode_data(masked=flag)
            if [float(x) for x in bf] != ef or len(bm) != len(eZ) or any(abs(float(a) - abs(z)) > 1e-14 * abs(z) for a, z in zip(bm, eZ)):
                viol(f"observer|get_bode_data(masked={flag})", "Bode data differ from the reference points")
            nr, ni = ds.get_nyquist_data(masked=flag)
            if [float(x) for x in nr] != [z.real for z in eZ] or [float(x) for x in ni] != [-z.imag for z in eZ]:
                viol(f"observer|get_nyquist_data(masked={flag})", "Nyquist data differ from the reference points")
            df = ds.to_dataframe(masked=flag)
            if len(df) != len(ef) or [float(x) for x in df[df.columns[0]]] != ef:
                viol(f"observer|to_dataframe(masked={flag})", "data frame rows differ from the reference points")
        for flag in (False, True):
            a = [float(x) for x in ds.get_frequencies(masked=np.bool_(flag))]
            b = [float(x) for x in ds.get_frequencies(masked=flag)]
            if a != b:
                viol("observer|masked-argument-as-numpy-bool", f"get_frequencies(masked=numpy.bool_({flag})) differs from get_frequencies(masked={flag})", f"{a} vs {b}")
        if ds.get_num_points(masked=None) != len(exp_f):
            viol("observer|get_num_points(masked=None)", "total point count differs")
        n_un, n_ma = ds.get_num_points(masked=False), ds.get_num_points(masked=True)
        if n_un + n_ma != len(exp_f):
            viol("partition|views-do-not-partition", "unmasked and masked views do not partition the full view")
        d = ds.to_dict()
        if d["frequencies"] != exp_f or d["real_impedances"] != [z.real for z in exp_Z] or d["imaginary_impedances"] != [z.imag for z in exp_Z] \
                or {int(k): bool(v) for k, v in d["mask"].items()} != exp_m:
            viol("observer|to_dict", "exported dictionary differs from the reference points")
        return vs

    def canon(self, impl, ref: Optional[Ref]):
        if ref is None:
            return ("<no object>",)
        return ref.key()


def make_model(args):
    return Model(args)
