"""Two-stage oracle for "numeric impedance == documented closed-form expression".

Stage 1: the expression lambdified to NumPy complex128, relative difference <= FIRST_PASS.
Stage 2 (only for stage-1 disagreements): the same expression evaluated by mpmath at 50 digits on the *exact*
binary values of the inputs, and again with each input perturbed by +-8 ulp; if the reference itself moves by
more than ILL_COND under that perturbation the point is ill-conditioned (counted, not judged); otherwise the
numeric value must be within GENUINE of the 50-digit reference.
"""
from __future__ import annotations

import math
from typing import Any, Callable, Dict, List, Optional, Sequence, Tuple

FIRST_PASS = 1e-9
ILL_COND = 1e-7
GENUINE = 1e-6


class Lambdas:
    """numpy + mpmath lambdas of one sympy expression in the ordered symbols `names` (first is f)."""

    def __init__(self, expr, names: Sequence[str]):
        import sympy as sp
        import mpmath as mp

        self.mp = mp
        self.names = list(names)
        syms = [sp.Symbol(n) for n in names]
        self.expr = expr
        self.np_f = sp.lambdify(syms, expr, modules="numpy")
        self._mp_f = None
        self._syms = syms

    @property
    def mp_f(self):
        if self._mp_f is None:
            import sympy as sp

            self._mp_f = sp.lambdify(self._syms, self.expr, modules="mpmath")
        return self._mp_f

    def numpy_eval(self, f, params: Sequence[float]):
        import numpy as np

        with np.errstate(all="ignore"):
            try:
                z = self.np_f(f.astype(complex), *[complex(p) if False else p for p in params])
            except (ZeroDivisionError, OverflowError):
                # Python-float sub-expressions of the parameters alone (0.0 ** -1.0, 1e308 * 1e308): no first-pass value, the
                # caller adjudicates these points with the 50-digit evaluation
                return np.full(f.shape, complex("nan"), dtype=complex)
        return np.array(z, dtype=complex) * np.ones(f.shape, dtype=complex)

    def mp_eval(self, f: float, params: Sequence[float]) -> Optional[complex]:
        mp = self.mp
        old = mp.mp.dps
        mp.mp.dps = 50
        try:
            v = self.mp_f(mp.mpf(float(f)), *[_mpf(mp, p) for p in params])
            z = complex(v)
            if math.isnan(z.real) or math.isnan(z.imag) or math.isinf(z.real) or math.isinf(z.imag):
                return None
            return z
        except Exception:
            return None
        finally:
            mp.mp.dps = old


def _mpf(mp, x: float):
    x = float(x)
    if math.isinf(x):
        return mp.inf if x > 0 else -mp.inf
    return mp.mpf(x)


def _nudge(x: float, k: int) -> float:
    import numpy as np

    y = float(x)
    if math.isinf(y) or y == 0.0:
        return y
    for _ in range(abs(k)):
        y = float(np.nextafter(y, math.inf if k > 0 else -math.inf))
    return y


def adjudicate(lam: Lambdas, f: float, params: Sequence[float], numeric: complex) -> Tuple[str, float, Optional[complex]]:
    """-> ('ok'|'illcond'|'undefined'|'genuine', relative error vs 50-digit reference, reference)"""
    ref = lam.mp_eval(f, params)
    if ref is None:
        return "undefined", 0.0, None
    scale = max(abs(ref), 1e-300)
    rel = abs(numeric - ref) / scale
    if rel <= GENUINE:
        return "ok", rel, ref  # agrees with the exact reference: conditioning is irrelevant
    var = 0.0
    args = [float(f)] + [float(p) for p in params]
    for j in range(len(args)):
        for s in (8, -8):
            a2 = list(args)
            a2[j] = _nudge(a2[j], s)
            if a2[j] == args[j]:
                continue
            r2 = lam.mp_eval(a2[0], a2[1:])
            if r2 is None:
                return "illcond", 0.0, ref
            var = max(var, abs(r2 - ref) / scale)
    if var > ILL_COND:
        return "illcond", rel, ref
    if rel > GENUINE:
        return "genuine", rel, ref
    return "ok", rel, ref
