"""Independent model of the linear Kramers-Kronig test circuits (Boukamp 1995 Fig. 1 / Fig. 13; Schoenleber 2014 eq. 12).

Nothing here imports pyimpspec's Kramers-Kronig code: time constants and spectra are computed from the documented formulas.
"""
from __future__ import annotations

import math
from typing import Any, Dict, List, Optional, Sequence, Tuple


def time_constants(f: Sequence[float], num_RC: int, log_F_ext: float) -> List[float]:
    w = [2 * math.pi * x for x in f]
    F = 10.0 ** log_F_ext
    tmin = 1.0 / (max(w) * F)
    tmax = F / min(w)
    lo, hi = math.log10(tmin), math.log10(tmax)
    return [10.0 ** (lo + (k / (num_RC - 1)) * (hi - lo)) for k in range(num_RC)]


def model_spectrum(f: Sequence[float], taus: Sequence[float], admittance: bool, R0: float, coeffs: Sequence[float],
                   C: Optional[float], L: Optional[float]) -> List[complex]:
    """Impedance of the test's own model.
    impedance repr.:  Z = R0 + sum R_k/(1+jw tau_k) + 1/(jwC) + jwL              (coeffs = R_k)
    admittance repr.: Y = 1/R0 + sum jw C_k/(1+jw tau_k) + jwC + 1/(jwL), Z = 1/Y (coeffs = C_k)"""
    out = []
    for x in f:
        w = 2 * math.pi * x
        if not admittance:
            z = complex(R0, 0)
            for r, t in zip(coeffs, taus):
                z += r / (1 + 1j * w * t)
            if C is not None:
                z += 1 / (1j * w * C)
            if L is not None:
                z += 1j * w * L
            out.append(z)
        else:
            y = complex(1.0 / R0, 0)
            for c, t in zip(coeffs, taus):
                y += 1j * w * c / (1 + 1j * w * t)
            if C is not None:
                y += 1j * w * C
            if L is not None:
                y += 1 / (1j * w * L)
            out.append(1 / y)
    return out


def extract(result) -> Dict[str, Any]:
    """Parameters of the fitted test circuit read through the public element API."""
    els = result.circuit.get_elements()
    out: Dict[str, Any] = {"R0": None, "coeffs": [], "taus": [], "C": None, "L": None}
    for e in els:
        n = type(e).__name__
        if n == "Resistor":
            out["R0"] = e.get_value("R")
        elif n == "KramersKronigRC":
            out["coeffs"].append(e.get_value("R"))
            out["taus"].append(e.get_value("tau"))
        elif n == "KramersKronigAdmittanceRC":
            out["coeffs"].append(e.get_value("C"))
            out["taus"].append(e.get_value("tau"))
        elif n == "Capacitor":
            out["C"] = e.get_value("C")
        elif n == "Inductor":
            out["L"] = e.get_value("L")
    return out


LINEAR_TESTS = ["complex", "real", "imaginary", "complex-inv", "real-inv", "imaginary-inv"]
ALL_TESTS = LINEAR_TESTS + ["cnls"]
