"""Reference series/parallel composition in plain Python complex arithmetic (per frequency).

compose(tree, leaf_values) -> (z | None, kappa)
  z      complex impedance, or None when the (sub)circuit is an open circuit
  kappa  first-order bound on how much relative rounding error of the parts is amplified by cancellation
Rules (the property's words): series add; parallel add as reciprocals; an open branch of a parallel connection
contributes nothing; a shorted branch shorts the connection; a parallel connection whose branches are all open
is open; a series connection containing an open part is open; an empty series is a short.
"""
from __future__ import annotations

from typing import Iterator, List, Optional, Sequence, Tuple


def compose(tree, leaves: Iterator[Optional[complex]]) -> Tuple[Optional[complex], float]:
    kind = tree[0]
    if kind == "L":
        z = next(leaves)
        return (None if z is None else complex(z)), 1.0
    parts = [compose(k, leaves) for k in tree[1:]]
    if kind == "S":
        if any(z is None for z, _ in parts):
            return None, 1.0
        total = 0j
        for z, _ in parts:
            total += z
        if total == 0:
            return 0j, 1.0
        num = sum(abs(z) * k for z, k in parts)
        return total, max(1.0, num / abs(total))
    # parallel
    if any(z is not None and z == 0 for z, _ in parts):
        return 0j, 1.0
    live = [(z, k) for z, k in parts if z is not None]
    if not live:
        return None, 1.0
    y = 0j
    for z, _ in live:
        y += 1 / z
    num = sum(abs(1 / z) * k for z, k in live)
    if y == 0:
        return None, 1.0  # exact anti-resonance: treated as open by the model; palettes avoid it
    return 1 / y, max(1.0, num / abs(y))
