"""Circuit skeleton enumeration, leaf palettes, and three construction routes (objects, CDC text, CircuitBuilder).

A skeleton is ('L',) | ('S', kid, ...) | ('P', kid, ...).  The implicit outer series of a Circuit is not part
of the skeleton: a skeleton whose root is 'S' *is* the outer series; any other root is wrapped.
A leaf filling is a list of palette entries (dicts):
    {"sym": "R", "values": {"R": 1500.0}, "label": "", "sub": {"X_1": <skeleton+fill> | None | "short"} }
"""
from __future__ import annotations

import itertools
import math
from functools import lru_cache
from typing import Any, Dict, Iterator, List, Optional, Sequence, Tuple

Tree = tuple


def compositions(n: int, minparts: int) -> Iterator[Tuple[int, ...]]:
    def rec(rem, parts):
        if rem == 0:
            if len(parts) >= minparts:
                yield tuple(parts)
            return
        for k in range(1, rem + 1):
            yield from rec(rem - k, parts + [k])

    yield from rec(n, [])


@lru_cache(None)
def _trees(n: int, kind: str) -> Tuple[Tree, ...]:
    out = []
    other = "P" if kind == "S" else "S"
    for c in compositions(n, 2):
        kidsets = []
        for k in c:
            kidsets.append([("L",)] if k == 1 else list(_trees(k, other)))
        for kids in itertools.product(*kidsets):
            out.append((kind,) + kids)
    return tuple(out)


def canonical_trees(n: int) -> List[Tree]:
    """Alternating S/P trees with n leaves, arity >= 2 (what the parser produces): 1, 2, 6, 22, 90, 394 ..."""
    if n == 1:
        return [("L",)]
    return list(_trees(n, "S")) + list(_trees(n, "P"))


def object_only_trees(max_leaves: int) -> List[Tree]:
    """Shapes that only object construction can produce: single-child connections, same-kind nesting, empty Series."""
    L = ("L",)
    out = [
        ("P", L),
        ("S", ("S", L)),
        ("S", ("P", L), L),
        ("P", ("S", L), L),
        ("S", ("S", L, L), L),
        ("P", ("P", L, L), L),
        ("P", ("P", L), L),
        ("S", L, ("S",)),          # empty series (a short) in series
        ("P", L, ("S",)),          # empty series (a short) in parallel
        ("S", ("S", L, L), ("S", L)),
        ("P", ("P", L, L), ("P", L, L)),
        ("P", ("S", ("S", L, L), L), L),
        ("S", ("P", ("P", L, L), L), L),
    ]
    return [t for t in out if n_leaves(t) <= max_leaves]


def n_leaves(t: Tree) -> int:
    if t[0] == "L":
        return 1
    return sum(n_leaves(k) for k in t[1:])


def depth(t: Tree) -> int:
    if t[0] == "L":
        return 0
    return 1 + max([depth(k) for k in t[1:]] or [0])


def is_canonical(t: Tree, parent: Optional[str] = None) -> bool:
    if t[0] == "L":
        return True
    if len(t) - 1 < 2 or t[0] == parent:
        return False
    return all(is_canonical(k, t[0]) for k in t[1:])


def tree_str(t: Tree, names: Optional[Iterator[str]] = None) -> str:
    if t[0] == "L":
        return next(names) if names is not None else "x"
    o, c = ("[", "]") if t[0] == "S" else ("(", ")")
    return o + "".join(tree_str(k, names) for k in t[1:]) + c


# ---------------------------------------------------------------------------------------------------
# palette entries

def entry(sym: str, values: Optional[Dict[str, float]] = None, label: str = "", sub: Optional[dict] = None,
          name: Optional[str] = None, cdc_ok: bool = True) -> dict:
    return {"sym": sym, "values": dict(values or {}), "label": label, "sub": sub, "name": name or sym, "cdc_ok": cdc_ok}


def element_class(sym: str):
    from pyimpspec.circuit.registry import get_elements

    return get_elements(private=True)[sym]


def fmt_float(x: float) -> str:
    """Shortest exact decimal spelling the CDC tokenizer accepts (digits[.digits][e[+-]digits])."""
    x = float(x)
    if math.isinf(x) or math.isnan(x):
        raise ValueError("not expressible as a CDC number")
    r = repr(x)
    if r.endswith(".0"):
        r = r[:-2]
    return r


def sub_to_objects(spec):
    """Sub-circuit spec: None (open) | 'short' | (tree, fills)."""
    if spec is None:
        return None
    from pyimpspec.circuit.series import Series

    if spec == "short":
        return Series([])
    tree, fills = spec
    con = build_objects(tree, fills)
    from pyimpspec.circuit.base import Connection

    if not isinstance(con, Connection):
        con = Series([con])
    return con


def make_element(e: dict):
    cls = element_class(e["sym"])
    kwargs = dict(e["values"])
    if e.get("sub"):
        for k, spec in e["sub"].items():
            kwargs[k] = sub_to_objects(spec)
    el = cls(**kwargs)
    if e.get("label"):
        el.set_label(e["label"])
    return el


def build_objects(tree: Tree, fills: Sequence[dict]):
    """Element / Series / Parallel objects for the skeleton (no Circuit wrapper)."""
    from pyimpspec.circuit.parallel import Parallel
    from pyimpspec.circuit.series import Series

    it = iter(fills)

    def rec(t):
        if t[0] == "L":
            return make_element(next(it))
        kids = [rec(k) for k in t[1:]]
        return Series(kids) if t[0] == "S" else Parallel(kids)

    return rec(tree)


def circuit_from_objects(tree: Tree, fills: Sequence[dict]):
    from pyimpspec.circuit.circuit import Circuit
    from pyimpspec.circuit.series import Series

    obj = build_objects(tree, fills)
    if not isinstance(obj, Series):
        obj = Series([obj])
    return Circuit(obj)


def element_cdc(e: dict) -> str:
    parts = []
    for k, v in e["values"].items():
        parts.append(f"{k}={fmt_float(v)}")
    if e.get("sub"):
        for k, spec in e["sub"].items():
            if spec is None:
                parts.append(f"{k}=open")
            elif spec == "short":
                parts.append(f"{k}=short")
            else:
                t, f = spec
                s = to_cdc(t, f)
                if t[0] == "L":
                    s = "[" + s + "]"
                parts.append(f"{k}={s}")
    body = ",".join(parts)
    if e.get("label"):
        body += ":" + e["label"]
    return e["sym"] + ("{" + body + "}" if body else "")


def to_cdc(tree: Tree, fills: Sequence[dict]) -> str:
    it = iter(fills)

    def rec(t):
        if t[0] == "L":
            return element_cdc(next(it))
        o, c = ("[", "]") if t[0] == "S" else ("(", ")")
        return o + "".join(rec(k) for k in t[1:]) + c

    return rec(tree)


def circuit_from_cdc(tree: Tree, fills: Sequence[dict]):
    from pyimpspec import parse_cdc

    return parse_cdc(to_cdc(tree, fills))


def circuit_from_builder(tree: Tree, fills: Sequence[dict]):
    from pyimpspec.circuit.circuit_builder import CircuitBuilder

    it = iter(fills)

    def rec(builder, t):
        if t[0] == "L":
            builder.add(make_element(next(it)))
            return
        ctx = builder.series() if t[0] == "S" else builder.parallel()
        with ctx as b:
            for k in t[1:]:
                rec(b, k)

    with CircuitBuilder() as root:
        if tree[0] == "S":
            for k in tree[1:]:
                rec(root, k)
        else:
            rec(root, tree)
    return root.to_circuit()


def builder_expressible(tree: Tree) -> bool:
    """CircuitBuilder refuses parallel groups with < 2 items and empty series."""
    if tree[0] == "L":
        return True
    kids = tree[1:]
    if tree[0] == "P" and len(kids) < 2:
        return False
    if tree[0] == "S" and len(kids) < 1:
        return False
    return all(builder_expressible(k) for k in kids)


def cdc_expressible(tree: Tree) -> bool:
    """The CDC grammar has no empty connection and no one-item parallel group."""
    return builder_expressible(tree)
