"""E2 - explicit-state breadth-first search over operation histories on the real objects.

A state is the history that reaches it. Live objects are never copied (copying is itself under test): every
expansion rebuilds a fresh implementation object and a fresh reference-model state by replaying the history,
applies one more operation to both in lock-step, compares them, and canonicalises the successor. States are
de-duplicated on the canonical observation; search is level-synchronous so the frontier of each depth can be
expanded by parallel workers.

A model module provides  make_model(args) -> object  with
    initial(self)                      -> (impl, ref)          fresh pair for the empty history
    enabled(self, ref, depth)          -> list of ops          (JSON-able, deterministic order, simplest first)
    apply(self, impl, ref, op)         -> (impl, ref, violations)   one lock-step transition incl. all oracles
                                          violations: list of {"key","what","detail"}
    canon(self, impl, ref)             -> hashable             canonical successor state
    describe(self, op)                 -> str
"""
from __future__ import annotations

import importlib
import time
from typing import Any, Dict, List, Optional, Tuple

from vf.runner import jsonable


def _replay(model, history):
    impl, ref = model.initial()
    for op in history:
        impl, ref, _ = model.apply(impl, ref, op)
    return impl, ref


def in_child(fn):
    """Runs fn() in a forked child and returns its (picklable) result: for models whose implementation state is
    process-global, so that no hidden module-level state can leak from one replayed history into the next."""
    import os
    import pickle
    import traceback

    r, w = os.pipe()
    pid = os.fork()
    if pid == 0:
        os.close(r)
        try:
            data = pickle.dumps(("ok", fn()))
        except BaseException as e:  # noqa
            data = pickle.dumps(("error", f"{type(e).__name__}: {e}\n{traceback.format_exc()[-1500:]}"))
        with os.fdopen(w, "wb") as fp:
            fp.write(data)
        os._exit(0)
    os.close(w)
    with os.fdopen(r, "rb") as fp:
        data = fp.read()
    os.waitpid(pid, 0)
    status, val = pickle.loads(data)
    if status == "error":
        raise RuntimeError("child failed: " + val)
    return val


def _expand_isolated(model, modname, margs, histories, depth, keep_all: bool = False) -> dict:
    succ: Dict[Any, list] = {}
    viols: Dict[str, dict] = {}
    transitions = 0
    outcomes: Dict[str, int] = {}
    for hist in histories:
        def get_ops(hist=hist):
            impl, ref = _replay(model, hist)
            return model.enabled(ref, depth)

        ops = in_child(get_ops)
        for op in ops:
            def one(hist=hist, op=op):
                impl, ref = _replay(model, hist)
                impl, ref, vs = model.apply(impl, ref, op)
                c = None
                if not vs or getattr(model, "continue_after_violation", True):
                    c = model.canon(impl, ref)
                if not vs and hasattr(model, "final_check"):
                    # observation with side effects on hidden state; safe here because this child is discarded
                    vs = model.final_check(impl, ref, op)
                return vs, c

            vs, c = in_child(one)
            transitions += 1
            kind = op[0] if isinstance(op, (list, tuple)) else str(op)
            outcomes[kind] = outcomes.get(kind, 0) + 1
            h2 = list(hist) + [op]
            for v in vs:
                old = viols.get(v["key"])
                if old is None:
                    viols[v["key"]] = {"key": v["key"], "what": v["what"], "detail": v.get("detail", ""),
                                       "case": {"model": modname, "args": margs, "history": h2}, "count": 1}
                else:
                    old["count"] += 1
            if c is not None and keep_all:
                succ[(c, repr(h2))] = h2
            elif c is not None and c not in succ:
                succ[c] = h2
    return {"succ": succ, "viols": list(viols.values()), "transitions": transitions, "outcomes": outcomes, "keep_all": keep_all}


def _expand(arg) -> dict:
    modname, margs, histories, depth = arg[:4]
    keep_all = bool(arg[4]) if len(arg) > 4 else False
    mod = importlib.import_module(modname)
    model = mod.make_model(margs)
    if getattr(model, "isolate", False):
        return _expand_isolated(model, modname, margs, histories, depth, keep_all)
    succ: Dict[Any, list] = {}
    viols: Dict[str, dict] = {}
    transitions = 0
    outcomes: Dict[str, int] = {}
    for hist in histories:
        try:
            impl, ref = _replay(model, hist)
            ops = model.enabled(ref, depth)
        except Exception as e:  # harness failure while replaying a prefix is a hard error
            raise RuntimeError(f"replay of history {hist!r} failed: {type(e).__name__}: {e}") from e
        for op in ops:
            impl, ref = _replay(model, hist)
            impl, ref, vs = model.apply(impl, ref, op)
            transitions += 1
            kind = op[0] if isinstance(op, (list, tuple)) else str(op)
            outcomes[kind] = outcomes.get(kind, 0) + 1
            h2 = list(hist) + [op]
            for v in vs:
                old = viols.get(v["key"])
                if old is None:
                    viols[v["key"]] = {"key": v["key"], "what": v["what"], "detail": v.get("detail", ""),
                                       "case": {"model": modname, "args": margs, "history": h2}, "count": 1}
                else:
                    old["count"] += 1
            if vs and not getattr(model, "continue_after_violation", True):
                continue
            try:
                c = model.canon(impl, ref)
            except Exception as e:
                raise RuntimeError(f"canon failed after {h2!r}: {type(e).__name__}: {e}") from e
            if keep_all:
                succ[(c, repr(h2))] = h2   # shallow histories are never merged: see bfs(nodedup_depth)
            elif c not in succ:
                succ[c] = h2
    return {"succ": succ, "viols": list(viols.values()), "transitions": transitions, "outcomes": outcomes, "keep_all": keep_all}


def bfs(ctx, modname: str, margs: Any, max_depth: int, label: str, max_states: int = 2_000_000, chunk: int = 0,
        nodedup_depth: int = 1) -> Dict[str, Any]:
    """Level-synchronous BFS. Merges counts/violations into ctx. Returns summary.

    Histories of length <= nodedup_depth are never merged with an equal-looking state: the canonical form only contains what the
    observers show, and an operation that looks like a no-op (a reset in the initial state, a copy) may still leave the object in a
    different hidden state (shared dictionaries, aliases). Every operation is therefore also tried after every such short history."""
    import multiprocessing as mp

    mod = importlib.import_module(modname)
    model = mod.make_model(margs)
    # the runner process itself never touches the implementation (replays are forked from it later and must see a pristine image)
    seen = {in_child(lambda: model.canon(*model.initial())): []}
    frontier: List[list] = [[]]
    total_states, total_trans = 1, 0
    unmerged = 0
    depth_reached = 0
    capped = None
    sample_hist = None
    pool = mp.get_context("fork").Pool(ctx.workers) if ctx.workers > 1 else None
    try:
        for depth in range(max_depth):
            if not frontier:
                break
            k = chunk or max(1, min(200, len(frontier) // (ctx.workers * 4) + 1))
            keep_all = depth < nodedup_depth
            jobs = [(modname, margs, frontier[i:i + k], depth, keep_all) for i in range(0, len(frontier), k)]
            results = pool.imap(_expand, jobs) if pool is not None else (in_child(lambda j=j: _expand(j)) for j in jobs)
            nxt: List[list] = []
            for r in results:
                total_trans += r["transitions"]
                for kk, vv in r["outcomes"].items():
                    ctx.outcomes[kk] += vv
                for v in r["viols"]:
                    ctx.violation(v["key"], v["what"], v["case"], v["detail"])
                    ctx.viol_count[v["key"]] += v["count"] - 1
                new_states = 0
                for c, h in r["succ"].items():
                    if keep_all:
                        c = c[0]
                        unmerged += 0 if c not in seen else 1
                        nxt.append(h)
                        if c not in seen:
                            seen[c] = h
                            new_states += 1
                    elif c not in seen:
                        seen[c] = h
                        nxt.append(h)
                        new_states += 1
                total_states += new_states
            depth_reached = depth + 1
            frontier = nxt
            if frontier:
                sample_hist = frontier[len(frontier) // 2]
            if total_states > max_states:
                capped = f"{label}: state cap {max_states} hit at depth {depth + 1}; deeper levels not explored"
                break
    finally:
        if pool is not None:
            pool.close()
            pool.join()
    ctx.states += total_states
    ctx.transitions += total_trans
    ctx.n += total_trans
    for c in seen:
        ctx.nontrivial.add(hash((label, c)))
    if capped:
        ctx.capped.append(capped)
    if sample_hist is not None and len(ctx.samples) < 12:
        ctx.samples.append({"model": label, "history": jsonable([model.describe(op) for op in sample_hist])})
    p = ctx.parts.setdefault(label, {})
    p.update({"states": total_states, "transitions": total_trans, "depth": depth_reached, "frontier_left": len(frontier),
              "histories_kept_although_state_seen": unmerged})
    return {"states": total_states, "transitions": total_trans, "depth": depth_reached}


def replay_history(modname: str, margs: Any, history: list) -> List[dict]:
    """Re-executes one history without the explorer; returns the violations of its LAST transition."""
    mod = importlib.import_module(modname)
    model = mod.make_model(margs)

    def go():
        impl, ref = model.initial()
        vs: List[dict] = []
        for op in history:
            impl, ref, vs = model.apply(impl, ref, op)
        if not vs and getattr(model, "isolate", False) and hasattr(model, "final_check") and history:
            vs = model.final_check(impl, ref, history[-1])
        return vs

    vs = in_child(go) if getattr(model, "isolate", False) else go()
    return [{"key": v["key"], "what": v["what"], "detail": v.get("detail", ""),
             "case": {"model": modname, "args": margs, "history": history}} for v in vs]
