"""E2 on live circuit objects: every sequence of (observation | in-place modification) operations up to a depth.

Oracle (differential, no hand-written expected values): after any history the live object must show what a circuit built directly
from a specification of the CURRENT parameter state shows.  The table {state -> observation results} is computed up front from
specifications only (objects are constructed and observed, never modified), so that in-place modifications made during a history
cannot reach the reference through shared objects, class-level defaults or caches.

  subject   = (tree, fills, route)            route in objects | cdc | builder
  mutation  = {"leaf": i, "kind": "values", "alt": {...}}                       element.set_values(**alt) <-> original values
              {"leaf": i, "kind": "nested", "key": "X_1", "idx": j, "alt": {}}  the j-th element of a container's sub-circuit
              {"leaf": i, "kind": "sub", "key": "X_2", "alt": spec}             container.set_subcircuits(key=...)
  a mutation is a toggle: applying it again restores the original; the reference state is the set of toggles that are on
  operation = ["obs", name] | ["tog", k] | ["copy"]                             copy: continue on deepcopy(live)
"""
from __future__ import annotations

import copy
import itertools
from typing import Any, Callable, Dict, List, Optional, Sequence, Tuple

from vf import gen_circuits as G

ROUTES = {"objects": G.circuit_from_objects, "cdc": G.circuit_from_cdc, "builder": G.circuit_from_builder}


def spec_state(fills: Sequence[dict], muts: Sequence[dict], on: Sequence[bool]) -> List[dict]:
    out = [copy.deepcopy(e) for e in fills]   # one by one: entries may share sub-circuit specifications
    for m, flag in zip(muts, on):
        if not flag:
            continue
        e = out[m["leaf"]]
        if m["kind"] == "values":
            e["values"].update(m["alt"])
        elif m["kind"] == "nested":
            tree, sub = e["sub"][m["key"]]
            sub[m["idx"]]["values"].update(m["alt"])
        elif m["kind"] == "sub":
            e["sub"][m["key"]] = copy.deepcopy(m["alt"])
    return out


def _leaf(circuit, i: int):
    return circuit.get_elements()[i]


def live_toggle(circuit, fills: Sequence[dict], m: dict, turn_on: bool, explicit: Optional[Sequence[dict]] = None) -> None:
    """`explicit` = the specification with implicit defaults spelled out (used to know the original values)."""
    src = (explicit or fills)[m["leaf"]]
    el = _leaf(circuit, m["leaf"])
    if m["kind"] == "values":
        vals = m["alt"] if turn_on else {k: src["values"][k] for k in m["alt"]}
        el.set_values(**vals)
    elif m["kind"] == "nested":
        tree, sub = src["sub"][m["key"]]
        vals = m["alt"] if turn_on else {k: sub[m["idx"]]["values"][k] for k in m["alt"]}
        el.get_subcircuit(m["key"]).get_elements()[m["idx"]].set_values(**vals)
    elif m["kind"] == "sub":
        spec = m["alt"] if turn_on else src["sub"][m["key"]]
        el.set_subcircuits(**{m["key"]: G.sub_to_objects(copy.deepcopy(spec))})


def _close(a, b, rtol: float, atol: float = 1e-300) -> bool:
    if a[0] != b[0]:
        return False
    if a[0] == "ok":
        if len(a[1]) != len(b[1]):
            return False
        for x, y in zip(a[1], b[1]):
            if isinstance(x, str) or isinstance(y, str):
                if x != y:
                    return False
            elif not (abs(x - y) <= rtol * max(abs(x), abs(y)) + atol):
                return False
        return True
    return a[1:] == b[1:]


def reference_table(tree, explicit_fills, muts, observations: Dict[str, Callable[[Any], tuple]]) -> Dict[Tuple[bool, ...], Dict[str, tuple]]:
    """`observations` here may differ from the ones applied to the live object (an independent way to obtain the expected result)."""
    table = {}
    for on in itertools.product((False, True), repeat=len(muts)):
        c = G.circuit_from_objects(tree, spec_state(explicit_fills, muts, on))
        table[on] = {name: fn(c) for name, fn in observations.items()}
    return table


def run_history(make_live: Callable[[], Any], fills, explicit_fills, muts, observations, table, ops: Sequence[Sequence], rtol: float = 1e-12, atol: float = 1e-300):
    """Returns (first mismatch or None, number of observations made)."""
    live = make_live()
    on = [False] * len(muts)
    nobs = 0
    for step, op in enumerate(ops):
        if op[0] == "tog":
            k = op[1]
            on[k] = not on[k]
            live_toggle(live, fills, muts[k], on[k], explicit_fills)
        elif op[0] == "copy":
            live = copy.deepcopy(live)
        elif op[0] == "obs":
            nobs += 1
            got = observations[op[1]](live)
            exp = table[tuple(on)][op[1]]
            if not _close(got, exp, rtol, atol):
                return {"step": step, "op": list(op), "got": _short(got), "expected": _short(exp), "state": list(on)}, nobs
    return None, nobs


def _short(r):
    if r[0] == "ok":
        return ["ok", [str(x) for x in r[1][:4]]]
    return [str(x)[:120] for x in r]


def all_sequences(alphabet: Sequence[Sequence], depth: int):
    """Every operation sequence of exactly `depth` operations (observations are checked at every position, so all shorter
    sequences are covered as prefixes)."""
    return itertools.product(alphabet, repeat=depth)


def shrink(ops: List[list], fails: Callable[[List[list]], bool]) -> List[list]:
    """Greedy removal of operations while the sequence still fails (toggles are involutions, so removing one is always legal)."""
    ops = [list(o) for o in ops]
    changed = True
    while changed:
        changed = False
        for i in range(len(ops)):
            cand = ops[:i] + ops[i + 1:]
            if cand and fails(cand):
                ops = cand
                changed = True
                break
    return ops


class Driver:
    """Generic chunk runner: all sequences of `depth` operations that start with `prefix`, on one subject and route."""

    def __init__(self, subjects: Dict[str, dict], live_obs: Dict[str, Callable], ref_obs: Optional[Dict[str, Callable]] = None, key_prefix: str = "history",
                 rtol: float = 1e-12, atol: float = 1e-300, with_copy: bool = False, case_extra: Optional[dict] = None,
                 obs_word: str = "observe"):
        self.subjects, self.live_obs, self.ref_obs = subjects, live_obs, ref_obs or live_obs
        self.key_prefix, self.rtol, self.atol, self.with_copy = key_prefix, rtol, atol, with_copy
        self.case_extra = case_extra or {}
        self.obs_word = obs_word
        self._tables: Dict[str, dict] = {}

    def alphabet(self, name: str) -> List[list]:
        a = [["obs", k] for k in self.live_obs] + [["tog", k] for k in range(len(self.subjects[name]["muts"]))]
        return a + ([["copy"]] if self.with_copy else [])

    def run(self, name: str, route: str, ops):
        subj = self.subjects[name]
        explicit = subj.get("explicit", subj["fills"])
        if name not in self._tables:
            self._tables[name] = reference_table(subj["tree"], explicit, subj["muts"], self.ref_obs)
        return run_history(lambda: ROUTES[route](subj["tree"], subj["fills"]), subj["fills"], explicit, subj["muts"], self.live_obs,
                           self._tables[name], ops, self.rtol, self.atol)

    def violation(self, name: str, route: str, ops) -> Optional[dict]:
        bad, _ = self.run(name, route, ops)
        if bad is None:
            return None
        ops = shrink(list(ops)[: bad["step"] + 1], lambda o: self.run(name, route, o)[0] is not None)
        bad, _ = self.run(name, route, ops)
        subj = self.subjects[name]
        sig = ">".join((o[1] if o[0] == "obs" else subj["muts"][o[1]]["kind"] if o[0] == "tog" else o[0]) for o in ops)
        return {"key": f"{self.key_prefix}|{sig}", "what": f"after the operation sequence {ops} on the live circuit {name} ({route} route), {self.obs_word} "
                f"'{bad['op'][1]}' gives {bad['got']} but a circuit built directly with the same current parameters gives {bad['expected']}",
                "case": dict(self.case_extra, history=name, route=route, ops=[list(o) for o in ops]), "detail": ""}

    def chunk(self, name: str, route: str, prefix: List[list], depth: int) -> dict:
        alpha = self.alphabet(name)
        n = nobs = 0
        viols: Dict[str, dict] = {}
        outcomes: Dict[str, int] = {}
        nontrivial = []
        last = None
        for rest in all_sequences(alpha, depth - len(prefix)):
            ops = list(prefix) + list(rest)
            if not any(o[0] == "obs" for o in ops):
                continue
            n += 1
            last = ops
            bad, k = self.run(name, route, ops)
            nobs += k
            togs = sum(1 for o in ops if o[0] == "tog")
            o = f"{self.key_prefix}:{'agree' if bad is None else 'DIFFER'}/{togs} modifications"
            outcomes[o] = outcomes.get(o, 0) + 1
            if togs:
                nontrivial.append(hash((name, route, repr(ops))))
            if bad is not None:
                v = self.violation(name, route, ops)
                if v is not None:
                    if v["key"] not in viols:
                        v["count"] = 0
                        viols[v["key"]] = v
                    viols[v["key"]]["count"] += 1
        return {"n": nobs, "nontrivial": nontrivial, "outcomes": outcomes, "violations": list(viols.values()), "traces": n, "transitions": n * depth,
                "samples": [{"history_subject": name, "route": route, "operations": last}] if last and prefix and prefix[0] == ["tog", 0] else []}

    def jobs(self, depth: int, routes=("objects", "cdc", "builder"), prefix_len: int = 1):
        out = []
        for name in self.subjects:
            alpha = self.alphabet(name)
            for route in routes:
                for pre in itertools.product(alpha, repeat=prefix_len):
                    out.append((name, route, [list(p) for p in pre], depth))
        return out
