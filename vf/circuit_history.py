"""E2 on live circuit objects: every sequence of (observation | in-place modification) operations up to a depth.

Oracle (differential, no hand-written expected values): after any history the live object must show what a circuit built directly
from a specification of the CURRENT parameter state shows.  The table {state -> observation results} is computed up front from
specifications only (objects are constructed and observed, never modified), so that in-place modifications made during a history
cannot reach the reference through shared objects, class-level defaults or caches.

  subject   = (tree, fills, route)            route in objects | cdc | builder
  mutation  = {"leaf": i, "kind": "values", "alt": {...}}                       element.set_values(**alt) <-> original values
              {"leaf": i, "kind": "nested", "key": "X_1", "idx": j, "alt": {}}  the j-th element of a container's sub-circuit
              {"leaf": i, "kind": "sub", "key": "X_2", "alt": spec}             container.set_subcircuits(key=...)
  a mutation is a toggle: applying it again restores the original; the reference state is the set of toggles that are on
  operation = ["obs", name] | ["tog", k] | ["copy"]                             copy: continue on deepcopy(live)
"""
from __future__ import annotations

import copy
import itertools
from typing import Any, Callable, Dict, List, Optional, Sequence, Tuple

from vf import gen_circuits as G

ROUTES = {"objects": G.circuit_from_objects, "cdc": G.circuit_from_cdc, "builder": G.circuit_from_builder}


def spec_state(fills: Sequence[dict], muts: Sequence[dict], on: Sequence[bool]) -> List[dict]:
    out = [copy.deepcopy(e) for e in fills]   # one by one: entries may share sub-circuit specifications
    for m, flag in zip(muts, on):
        if not flag:
            continue
        e = out[m["leaf"]]
        if m["kind"] == "values":
            e["values"].update(m["alt"])
        elif m["kind"] == "nested":
            tree, sub = e["sub"][m["key"]]
            sub[m["idx"]]["values"].update(m["alt"])
        elif m["kind"] == "sub":
            e["sub"][m["key"]] = copy.deepcopy(m["alt"])
    return out


def _leaf(circuit, i: int):
    return circuit.get_elements()[i]


def live_toggle(circuit, fills: Sequence[dict], m: dict, turn_on: bool, explicit: Optional[Sequence[dict]] = None) -> None:
    """`explicit` = the specification with implicit defaults spelled out (used to know the original values)."""
    src = (explicit or fills)[m["leaf"]]
    el = _leaf(circuit, m["leaf"])
    if m["kind"] == "values":
        vals = m["alt"] if turn_on else {k: src["values"][k] for k in m["alt"]}
        el.set_values(**vals)
    elif m["kind"] == "nested":
        tree, sub = src["sub"][m["key"]]
        vals = m["alt"] if turn_on else {k: sub[m["idx"]]["values"][k] for k in m["alt"]}
        el.get_subcircuit(m["key"]).get_elements()[m["idx"]].set_values(**vals)
    elif m["kind"] == "sub":
        spec = m["alt"] if turn_on else src["sub"][m["key"]]
        el.set_subcircuits(**{m["key"]: G.sub_to_objects(copy.deepcopy(spec))})


def _close(a, b, rtol: float) -> bool:
    if a[0] != b[0]:
        return False
    if a[0] == "ok":
        if len(a[1]) != len(b[1]):
            return False
        for x, y in zip(a[1], b[1]):
            if isinstance(x, str) or isinstance(y, str):
                if x != y:
                    return False
            elif not (abs(x - y) <= rtol * max(abs(x), abs(y)) + 1e-300):
                return False
        return True
    return a[1:] == b[1:]


def reference_table(tree, explicit_fills, muts, observations: Dict[str, Callable[[Any], tuple]]) -> Dict[Tuple[bool, ...], Dict[str, tuple]]:
    table = {}
    for on in itertools.product((False, True), repeat=len(muts)):
        c = G.circuit_from_objects(tree, spec_state(explicit_fills, muts, on))
        table[on] = {name: fn(c) for name, fn in observations.items()}
    return table


def run_history(make_live: Callable[[], Any], fills, explicit_fills, muts, observations, table, ops: Sequence[Sequence], rtol: float = 1e-12):
    """Returns (first mismatch or None, number of observations made)."""
    live = make_live()
    on = [False] * len(muts)
    nobs = 0
    for step, op in enumerate(ops):
        if op[0] == "tog":
            k = op[1]
            on[k] = not on[k]
            live_toggle(live, fills, muts[k], on[k], explicit_fills)
        elif op[0] == "copy":
            live = copy.deepcopy(live)
        elif op[0] == "obs":
            nobs += 1
            got = observations[op[1]](live)
            exp = table[tuple(on)][op[1]]
            if not _close(got, exp, rtol):
                return {"step": step, "op": list(op), "got": _short(got), "expected": _short(exp), "state": list(on)}, nobs
    return None, nobs


def _short(r):
    if r[0] == "ok":
        return ["ok", [str(x) for x in r[1][:4]]]
    return [str(x)[:120] for x in r]


def all_sequences(alphabet: Sequence[Sequence], depth: int):
    """Every operation sequence of exactly `depth` operations (observations are checked at every position, so all shorter
    sequences are covered as prefixes)."""
    return itertools.product(alphabet, repeat=depth)


def shrink(ops: List[list], fails: Callable[[List[list]], bool]) -> List[list]:
    """Greedy removal of operations while the sequence still fails (toggles are involutions, so removing one is always legal)."""
    ops = [list(o) for o in ops]
    changed = True
    while changed:
        changed = False
        for i in range(len(ops)):
            cand = ops[:i] + ops[i + 1:]
            if cand and fails(cand):
                ops = cand
                changed = True
                break
    return ops
