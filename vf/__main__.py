import argparse
import os
import sys

from vf import runner


def main() -> int:
    runner.pin_environment_and_reexec()
    ap = argparse.ArgumentParser(prog="python -m vf")
    ap.add_argument("target", help="property id (C01..C20), 'replay' or 'all'")
    ap.add_argument("path", nargs="?", help="replay file (with 'replay')")
    ap.add_argument("--tier", choices=["quick", "thorough"], default=os.environ.get("VERIF_TIER", "quick") or "quick")
    ap.add_argument("--seed", type=int, default=None)
    ap.add_argument("--workers", type=int, default=int(os.environ.get("VF_WORKERS", "0")) or (os.cpu_count() or 4))
    args = ap.parse_args()
    if args.tier not in ("quick", "thorough"):
        args.tier = "quick"
    seed = args.seed
    if seed is None:
        try:
            seed = int(os.environ.get("VERIF_SEED", "0"))
        except ValueError:
            seed = 0
    if args.target == "replay":
        return runner.replay_file(args.path)
    if args.target == "all":
        rc = 0
        for i in range(1, 21):
            pid = f"C{i:02d}"
            if os.path.exists(os.path.join(os.path.dirname(__file__), "checks", pid.lower() + ".py")):
                rc = max(rc, os.system(f"{sys.executable} -m vf {pid} --tier {args.tier} --seed {seed}") >> 8)
        return rc
    return runner.run_check(args.target.upper(), args.tier, seed, args.workers)


if __name__ == "__main__":
    sys.exit(main())
