"""Grammar-directed CDC printer with a known syntax tree (the generator is the oracle), and observation of parsed circuits.

AST
  tree  : ('L',) | ('S', kids...) | ('P', kids...)           (vf.gen_circuits skeletons)
  leaf  : spec = {"sym", "params": {k: [value, lower, upper, fixed]}, "label", "sub": {key: None|'short'|[tree, leaves]} }
Expected/observed canonical form (what is compared)
  connection: ('S'|'P', kid, ...)  with directly nested same-kind connections merged and single-child connections collapsed
  element   : ('E', sym, label, ((k, value, lower, upper, fixed), ...), ((subkey, None | canonical), ...))
"""
from __future__ import annotations

import math
from typing import Any, Dict, Iterator, List, Optional, Sequence, Tuple

inf = math.inf


def cls_of(sym: str):
    from pyimpspec.circuit.registry import get_elements

    return get_elements(private=True)[sym]


def defaults(sym: str) -> Dict[str, Tuple[float, float, float, bool]]:
    C = cls_of(sym)
    return {k: (C.get_default_value(k), C.get_default_lower_limit(k), C.get_default_upper_limit(k), C.is_fixed_by_default(k))
            for k in C.get_default_values()}


def is_container(sym: str) -> bool:
    from pyimpspec.circuit.base import Container

    return issubclass(cls_of(sym), Container)


def spec(sym: str, params: Optional[Dict[str, Sequence[Any]]] = None, label: str = "", sub: Optional[dict] = None) -> dict:
    d = defaults(sym)
    p = {k: list(d[k]) for k in d}
    for k, v in (params or {}).items():
        p[k] = list(v)
    return {"sym": sym, "params": p, "label": label, "sub": sub}


# ---------------------------------------------------------------------------------------------------
# numbers

def fmt(x: float, d: int) -> str:
    if math.isinf(x):
        return "inf"
    return f"%.{d}E" % x


def rnd(x: float, d: int) -> float:
    if math.isinf(x):
        return x
    return float(f"%.{d}E" % x)


# ---------------------------------------------------------------------------------------------------
# building the object through the public API

def set_limits_safely(el, lows: Dict[str, float], ups: Dict[str, float]) -> None:
    """Reach arbitrary (lower, upper) pairs with setter calls in an order the API accepts."""
    for k in lows:
        lo, hi = lows[k], ups[k]
        cur_lo, cur_hi = el.get_lower_limit(k), el.get_upper_limit(k)
        if lo < cur_hi:
            el.set_lower_limits(**{k: lo})
            el.set_upper_limits(**{k: hi})
        else:
            el.set_upper_limits(**{k: hi})
            el.set_lower_limits(**{k: lo})


def build_element(s: dict):
    C = cls_of(s["sym"])
    kwargs = {}
    if s.get("sub"):
        for key, sub in s["sub"].items():
            kwargs[key] = build_sub(sub)
    el = C(**kwargs)
    set_limits_safely(el, {k: v[1] for k, v in s["params"].items()}, {k: v[2] for k, v in s["params"].items()})
    el.set_values(**{k: v[0] for k, v in s["params"].items()})
    el.set_fixed(**{k: bool(v[3]) for k, v in s["params"].items()})
    if s.get("label"):
        el.set_label(s["label"])
    return el


def build_sub(sub):
    from pyimpspec.circuit.base import Connection
    from pyimpspec.circuit.series import Series

    if sub is None:
        return None
    if sub == "short":
        return Series([])
    tree, leaves = sub
    obj = build_tree(tuple_tree(tree), leaves)
    if not isinstance(obj, Connection):
        obj = Series([obj])
    return obj


def tuple_tree(t):
    return tuple(tuple_tree(x) if isinstance(x, (list, tuple)) else x for x in t)


def build_tree(tree, leaves: Sequence[dict]):
    from pyimpspec.circuit.parallel import Parallel
    from pyimpspec.circuit.series import Series

    it = iter(leaves)

    def rec(t):
        if t[0] == "L":
            return build_element(next(it))
        kids = [rec(k) for k in t[1:]]
        return Series(kids) if t[0] == "S" else Parallel(kids)

    return rec(tree)


def build_circuit(tree, leaves: Sequence[dict]):
    from pyimpspec.circuit.circuit import Circuit
    from pyimpspec.circuit.series import Series

    obj = build_tree(tree, leaves)
    if not isinstance(obj, Series):
        obj = Series([obj])
    return Circuit(obj)


# ---------------------------------------------------------------------------------------------------
# canonical forms

def norm_conn(kind: str, kids: List[Any]):
    flat = []
    for k in kids:
        if isinstance(k, tuple) and k and k[0] == kind:
            flat.extend(k[1:])
        else:
            flat.append(k)
    if len(flat) == 1:
        return flat[0]
    return (kind,) + tuple(flat)


def top_wrap(c):
    if isinstance(c, tuple) and c and c[0] == "S":
        return c
    return ("S", c)


def expected_element(s: dict, d: int) -> tuple:
    params = tuple((k, rnd(v[0], d), rnd(v[1], d), rnd(v[2], d), bool(v[3])) for k, v in s["params"].items())
    subs = ()
    if s.get("sub") is not None or is_container(s["sym"]):
        sub = s.get("sub") or {}
        C = cls_of(s["sym"])
        keys = list(C.get_default_subcircuits().keys())
        out = []
        for key in keys:
            if key in sub:
                out.append((key, expected_sub(sub[key], d)))
            else:
                out.append((key, observe_sub(C.get_default_subcircuits()[key])))
        subs = tuple(out)
    return ("E", s["sym"], s.get("label", "").strip(), params, subs)


def expected_sub(sub, d: int):
    if sub is None:
        return None
    if sub == "short":
        return ("S",)
    tree, leaves = sub
    c = expected_tree(tuple_tree(tree), leaves, d)
    if c == ("S",):
        return c
    return top_wrap(c)


def expected_tree(tree, leaves: Sequence[dict], d: int):
    it = iter(leaves)

    def rec(t):
        if t[0] == "L":
            return expected_element(next(it), d)
        kids = [rec(k) for k in t[1:]]
        if not kids:
            return (t[0],)
        return norm_conn(t[0], kids)

    return rec(tree)


def expected_circuit(tree, leaves: Sequence[dict], d: int):
    return top_wrap(expected_tree(tree, leaves, d))


def observe_element(el) -> tuple:
    from pyimpspec.circuit.base import Container

    params = tuple((k, float(el.get_value(k)), float(el.get_lower_limit(k)), float(el.get_upper_limit(k)), bool(el.is_fixed(k)))
                   for k in el.get_values())
    subs = ()
    if isinstance(el, Container):
        subs = tuple((key, observe_sub(con)) for key, con in el.get_subcircuits().items())
    return ("E", el.get_symbol(), el.get_label(), params, subs)


def observe_conn(con):
    from pyimpspec.circuit.base import Connection
    from pyimpspec.circuit.series import Series

    kind = "S" if isinstance(con, Series) else "P"
    kids = []
    for item in con:
        if isinstance(item, Connection):
            kids.append(observe_conn(item))
        else:
            kids.append(observe_element(item))
    if not kids:
        return (kind,)
    return norm_conn(kind, kids)


def observe_sub(con):
    if con is None:
        return None
    c = observe_conn(con)
    if c == ("S",):
        return c
    return top_wrap(c)


def observe_circuit(circuit):
    return top_wrap(observe_conn(circuit.get_connections(recursive=False)[0]))


def num_eq(a: float, b: float, rtol: float) -> bool:
    if a == b:
        # the two zeros are different values: they print differently, so a circuit holding one does not serialise to the same text
        return a != 0 or math.copysign(1.0, a) == math.copysign(1.0, b)
    if math.isinf(a) or math.isinf(b) or math.isnan(a) or math.isnan(b):
        return False
    return abs(a - b) <= rtol * max(abs(a), abs(b))


def diff(exp, obs, rtol: float = 0.0, path: str = "") -> Optional[str]:
    """First difference between expected and observed canonical forms, or None."""
    if exp is None or obs is None:
        return None if exp is obs else f"{path}: expected {short(exp)} observed {short(obs)}"
    if exp[0] != obs[0]:
        return f"{path}: expected node {short(exp)} observed {short(obs)}"
    if exp[0] == "E":
        if exp[1] != obs[1]:
            return f"{path}: element type {exp[1]} vs {obs[1]}"
        if exp[2] != obs[2]:
            return f"{path}/{exp[1]}: label {exp[2]!r} vs {obs[2]!r}"
        if len(exp[3]) != len(obs[3]):
            return f"{path}/{exp[1]}: parameter count"
        for pe, po in zip(exp[3], obs[3]):
            if pe[0] != po[0]:
                return f"{path}/{exp[1]}: parameter order {pe[0]} vs {po[0]}"
            for name, a, b in (("value", pe[1], po[1]), ("lower", pe[2], po[2]), ("upper", pe[3], po[3])):
                if not num_eq(a, b, rtol):
                    return f"{path}/{exp[1]}.{pe[0]}: {name} expected {a!r} observed {b!r}"
            if pe[4] != po[4]:
                return f"{path}/{exp[1]}.{pe[0]}: fixed expected {pe[4]} observed {po[4]}"
        if len(exp[4]) != len(obs[4]):
            return f"{path}/{exp[1]}: sub-circuit count"
        for (ke, se), (ko, so) in zip(sorted(exp[4]), sorted(obs[4])):
            if ke != ko:
                return f"{path}/{exp[1]}: sub-circuit key {ke} vs {ko}"
            r = diff(se, so, rtol, f"{path}/{exp[1]}.{ke}")
            if r:
                return r
        return None
    if len(exp) != len(obs):
        return f"{path}: {exp[0]} with {len(exp) - 1} children expected, {len(obs) - 1} observed ({short(exp)} vs {short(obs)})"
    for i, (a, b) in enumerate(zip(exp[1:], obs[1:])):
        r = diff(a, b, rtol, f"{path}/{exp[0]}{i}")
        if r:
            return r
    return None


def short(c) -> str:
    if c is None:
        return "open"
    if c[0] == "E":
        return c[1] + (":" + c[2] if c[2] else "")
    o, cl = ("[", "]") if c[0] == "S" else ("(", ")")
    return o + "".join(short(k) for k in c[1:]) + cl


# ---------------------------------------------------------------------------------------------------
# spellings

CANON = {"outer": "explicit", "header": "none", "form": "full", "omit": "none", "rev": False, "fmark": "F", "label": True,
         "ws": False, "subform": "bracket", "kw_short": "short", "kw_open": "open", "d": 12}

ALTERNATIVES = {
    "outer": ["implicit"],
    "header": ["!V=1!", "!v=1!"],
    "form": ["noblock", "values", "lo", "hi", "pct"],
    "omit": ["first", "last", "allbutfirst"],
    "rev": [True],
    "fmark": ["f"],
    "label": [False],
    "ws": [True],
    "subform": ["bare"],
    "kw_short": ["zero"],
    "kw_open": ["inf"],
    "d": [1, 3, 17],
}


def spell_variants(max_dev: int) -> List[dict]:
    """All switch settings with <= max_dev switches off their canonical position (bound iterated 0,1,2,..)."""
    import itertools

    keys = list(ALTERNATIVES)
    out = [dict(CANON)]
    for ndev in range(1, max_dev + 1):
        for combo in itertools.combinations(keys, ndev):
            for vals in itertools.product(*[ALTERNATIVES[k] for k in combo]):
                sw = dict(CANON)
                for k, v in zip(combo, vals):
                    sw[k] = v
                out.append(sw)
    return out


def implied_spec(s: dict, sw: dict) -> Optional[dict]:
    """The element the spelling denotes (omitted things take class defaults); None if the spelling is not expressible/feasible."""
    d = sw["d"]
    D = defaults(s["sym"])
    keys = list(s["params"])
    omit = set()
    if sw["omit"] == "first" and len(keys) >= 1:
        omit = {keys[0]}
    elif sw["omit"] == "last" and len(keys) >= 1:
        omit = {keys[-1]}
    elif sw["omit"] == "allbutfirst":
        omit = set(keys[1:])
    form = sw["form"]
    if form == "noblock":
        omit = set(keys)
    out = {}
    for k in keys:
        v, lo, hi, fx = s["params"][k]
        dv, dlo, dhi, dfx = D[k]
        if k in omit:
            out[k] = [dv, dlo, dhi, dfx]
            continue
        if form == "values":
            lo, hi = dlo, dhi
        elif form == "lo":
            hi = dhi
        elif form == "hi":
            lo = dlo
        elif form == "pct":
            if v == 0 or math.isinf(lo) or math.isinf(hi):
                return None
        out[k] = [v, lo, hi, fx]
        rv, rlo, rhi = rnd(out[k][0], d), rnd(out[k][1], d), rnd(out[k][2], d)
        if form not in ("full", "pct"):
            # limits taken from the class are not rounded
            if form in ("values", "lo"):
                rhi = out[k][2]
            if form in ("values", "hi"):
                rlo = out[k][1]
        if not (rlo < rhi and rlo <= rv <= rhi):
            return None
    label = s.get("label", "") if sw["label"] else ""
    sub = None
    if s.get("sub") is not None:
        sub = {}
        for key, val in s["sub"].items():
            if form == "noblock":
                continue  # omitted -> class default sub-circuit
            if val not in (None, "short"):
                t, leaves = val
                new_leaves = []
                for lf in leaves:
                    im = implied_spec(lf, sw)
                    if im is None:
                        return None
                    new_leaves.append(im)
                val = [t, new_leaves]
            sub[key] = val
        if form == "noblock":
            sub = {}
    return {"sym": s["sym"], "params": out, "label": label, "sub": sub, "_omit": sorted(omit), "_form": form}


def print_element(s: dict, sw: dict) -> Optional[str]:
    """Spelling of the *implied* element `s` (output of implied_spec) under switches sw."""
    d = sw["d"]
    ws = " " if sw["ws"] else ""
    form = s.get("_form", sw["form"])
    omit = set(s.get("_omit", ()))
    items = []
    if s.get("sub"):
        for key, val in s["sub"].items():
            if val is None:
                items.append(f"{key}{ws}={ws}{sw['kw_open']}")
            elif val == "short":
                items.append(f"{key}{ws}={ws}{sw['kw_short']}")
            else:
                t, leaves = val
                t = tuple_tree(t)
                body = print_tree(t, leaves, sw)
                if body is None:
                    return None
                if sw["subform"] == "bare":
                    if t[0] == "S":
                        if len(t) < 2 or t[1][0] != "L":
                            return None  # a bare list must begin with an element ('(' would denote a parallel sub-circuit)
                        body = body[1:-1].strip() if not sw["ws"] else body.strip()[1:-1].strip()
                    elif t[0] == "P":
                        return None  # a bare list cannot spell a parallel root
                elif t[0] == "L":
                    body = "[" + ws + body + ws + "]"
                items.append(f"{key}{ws}={ws}{body}")
    pitems = []
    for k, (v, lo, hi, fx) in s["params"].items():
        if k in omit:
            continue
        t = f"{k}{ws}={ws}{fmt(v, d)}" + (sw["fmark"] if fx else "")
        if form == "full":
            t += f"{ws}/{ws}{fmt(lo, d)}{ws}/{ws}{fmt(hi, d)}"
        elif form == "lo":
            t += f"{ws}/{ws}{fmt(lo, d)}"
        elif form == "hi":
            t += f"{ws}/{ws}/{ws}{fmt(hi, d)}"
        elif form == "pct":
            rv = rnd(v, d)
            t += f"{ws}/{ws}{lo / rv * 100:.17g}{ws}%{ws}/{ws}{hi / rv * 100:.17g}{ws}%"
        pitems.append(t)
    if sw["rev"]:
        pitems.reverse()
    items += pitems
    body = (ws + "," + ws).join(items)
    label = s.get("label", "")
    if not label and not items:
        return s["sym"]  # nothing to say: the bare symbol (empty braces are not part of the syntax)
    out = s["sym"] + ws + "{" + ws + body
    if label:
        out += ws + ":" + ws + label
    return out + ws + "}"


def print_tree(tree, leaves: Sequence[dict], sw: dict) -> Optional[str]:
    ws = " " if sw["ws"] else ""
    it = iter(leaves)

    def rec(t):
        if t[0] == "L":
            return print_element(next(it), sw)
        parts = [rec(k) for k in t[1:]]
        if any(p is None for p in parts) or not parts:
            return None
        if t[0] == "P" and len(parts) < 2:
            return None
        o, c = ("[", "]") if t[0] == "S" else ("(", ")")
        return o + ws + ws.join(parts) + ws + c

    return rec(tree)


def print_circuit(tree, leaves: Sequence[dict], sw: dict) -> Optional[Tuple[str, List[dict]]]:
    """-> (text, implied leaves) or None when this spelling cannot express the circuit."""
    implied = []
    for lf in leaves:
        im = implied_spec(lf, sw)
        if im is None:
            return None
        implied.append(im)
    body = print_tree(tree, implied, sw)
    if body is None:
        return None
    if sw["outer"] == "implicit":
        if tree[0] == "S":
            body = body.strip()[1:-1]
    elif tree[0] != "S":
        ws = " " if sw["ws"] else ""
        body = "[" + ws + body + ws + "]"
    hdr = "" if sw["header"] == "none" else sw["header"]
    return hdr + body, implied


def pct_rtol(sw: dict) -> float:
    return 1e-12 if sw["form"] == "pct" else 0.0


def expected_for_spelling(tree, implied: Sequence[dict], sw: dict):
    """Canonical form the spelling denotes. With percentage limits the limits are value*pct/100 (tolerance applies)."""
    d = sw["d"]
    # class-default limits/values (omitted things) must not be rounded: build expectation leaf by leaf
    it = iter(implied)

    def leaf(s):
        return expected_element_spelled(s, sw)

    def rec(t):
        if t[0] == "L":
            return leaf(next(it))
        kids = [rec(k) for k in t[1:]]
        return norm_conn(t[0], kids)

    return top_wrap(rec(tree))


def expected_element_spelled(s: dict, sw: dict) -> tuple:
    d = sw["d"]
    form = s.get("_form", "full")
    omit = set(s.get("_omit", ()))
    params = []
    for k, (v, lo, hi, fx) in s["params"].items():
        if k in omit:
            params.append((k, v, lo, hi, bool(fx)))
            continue
        rv = rnd(v, d)
        if form == "values":
            params.append((k, rv, lo, hi, bool(fx)))
        elif form == "lo":
            params.append((k, rv, rnd(lo, d), hi, bool(fx)))
        elif form == "hi":
            params.append((k, rv, lo, rnd(hi, d), bool(fx)))
        elif form == "pct":
            params.append((k, rv, lo, hi, bool(fx)))  # compared with 1e-12 relative tolerance
        else:
            params.append((k, rv, rnd(lo, d), rnd(hi, d), bool(fx)))
    subs = ()
    if is_container(s["sym"]):
        C = cls_of(s["sym"])
        out = []
        sub = s.get("sub") or {}
        for key in C.get_default_subcircuits().keys():
            if key in sub:
                val = sub[key]
                if val is None:
                    out.append((key, None))
                elif val == "short":
                    out.append((key, ("S",)))
                else:
                    t, leaves = val
                    it = iter(leaves)

                    def rec(t):
                        if t[0] == "L":
                            return expected_element_spelled(next(it), sw)
                        return norm_conn(t[0], [rec(k) for k in t[1:]])

                    out.append((key, top_wrap(rec(tuple_tree(t)))))
            else:
                out.append((key, observe_sub(C.get_default_subcircuits()[key])))
        subs = tuple(out)
    return ("E", s["sym"], s.get("label", "").strip(), tuple(params), subs)
