"""C11 - Z-HIT reconstructs the modulus from the phase (E1 over option cross products and a declared spectrum grid)."""
from __future__ import annotations

import itertools
import math
import warnings
from typing import Any, Dict, List, Optional, Sequence, Tuple

from vf.util import exc_signature, norm_msg

ID = "C11"
LEVEL = "exploration"
_ST: Dict[str, Any] = {}

SMOOTHERS = ["none", "lowess", "modsinc", "savgol", "whithend"]
INTERPOLATORS = ["akima", "makima", "cubic", "pchip"]
CONSTANT_PHASE = {
    "R": "R{R=120}", "R-small": "R{R=3e-3}", "C": "C{C=2e-5}", "C-small": "C{C=4e-9}", "L": "L{L=1e-3}", "L-big": "L{L=0.5}",
    "R-giga": "R{R=1e9}", "C-femto": "C{C=1e-15}", "Q0.5": "Q{Y=1e-2,n=0.5}", "Q0.8": "Q{Y=1e-4,n=0.8}", "Q1": "Q{Y=3e-6,n=1}", "W": "W{Y=1e-3}", "W-big": "W{Y=4}",
}
LADDERS = {
    "RC": "R{R=10}(R{R=100}C{C=1e-4})",
    "RC-RC": "R{R=5}(R{R=60}C{C=2e-5})(R{R=200}C{C=3e-3})",
    "RQ": "R{R=20}(R{R=150}Q{Y=8e-5,n=0.85})",
    "RQ-RC": "R{R=10}(R{R=100}Q{Y=1e-4,n=0.85})(R{R=50}C{C=1e-2})",
    "RQ-RQ": "R{R=2}(R{R=30}Q{Y=5e-4,n=0.9})(R{R=90}Q{Y=6e-3,n=0.75})",
    "RC3": "R{R=1}(R{R=10}C{C=1e-5})(R{R=25}C{C=1e-3})(R{R=15}C{C=5e-2})",
    # time constants at the edges of the measured range: the phase is still changing at the first (highest) and last frequency
    "RC-top": "R{R=10}(R{R=100}C{C=2e-7})(R{R=60}C{C=1e-3})",
    "RQ-top-RC": "R{R=10}(R{R=100}Q{Y=1e-6,n=0.9})(R{R=60}C{C=1e-3})",
    "RC-bottom": "R{R=10}(R{R=100}C{C=2e-5})(R{R=60}C{C=5e-1})",
}
GRIDS = {"g43": (4, -2, 43), "g31": (5, 0, 31), "g61": (3, -3, 61), "g43hi": (6, 0, 43)}
WARPED = {"g43warp": (4, -2, 43, 1.7)}   # same end points and point count as g43, non-uniform spacing (window-sequence only)
NP_ORDER = [(3, 2), (5, 2), (5, 3), (7, 4)]


def setup():
    if _ST:
        return _ST
    warnings.simplefilter("ignore")
    import numpy as np

    np.seterr(all="ignore")
    import pyimpspec
    from pyimpspec import DataSet, parse_cdc, perform_zhit
    from pyimpspec.exceptions import ZHITError
    from vf import schedule

    schedule.install()
    _ST.update(np=np, DataSet=DataSet, parse_cdc=parse_cdc, zhit=perform_zhit, ZHITError=ZHITError)
    return _ST


def make_data(case: dict, st):
    np = st["np"]
    g = case.get("grid", "g43")
    if g in WARPED:
        hi, lo, n, warp = WARPED[g]
        f = 10.0 ** (hi - (hi - lo) * (np.arange(n) / (n - 1)) ** warp)
    else:
        hi, lo, n = GRIDS[g]
        f = np.logspace(hi, lo, n)
    cdc = CONSTANT_PHASE.get(case["spec"]) or LADDERS[case["spec"]]
    Z = st["parse_cdc"](cdc).get_impedances(f) * case.get("zscale", 1.0)
    return f, Z


def weights_for(case: dict, f, st):
    np = st["np"]
    n = len(f)
    if case.get("default_call") or case.get("window"):
        return None
    kind = case.get("weights", "ones")
    if kind == "ones":
        return np.ones(n)
    if kind == "mid":
        return np.array([1.0 if n // 3 <= i < 2 * n // 3 else 0.0 for i in range(n)])
    if kind == "ramp":
        return np.array([min(1.0, max(0.0, (i - n // 4) / (n / 2))) for i in range(n)])
    return None  # named window


def zhit_call(f, Z, case: dict, st, w):
    kw = dict(smoothing=case.get("smoothing", "modsinc"), interpolation=case.get("interpolation", "makima"), admittance=bool(case.get("adm", False)),
              num_procs=1)
    if "np_order" in case:
        kw["num_points"], kw["polynomial_order"] = case["np_order"]
    if w is not None:
        kw["weights"] = w
        kw["window"] = "boxcar"
    elif case.get("window"):
        kw["window"] = case["window"]
        kw["center"] = float(case.get("center", 1.5))
        kw["width"] = float(case.get("width", 3.0))
    return st["zhit"](st["DataSet"](f.copy(), Z.copy()), **kw)


def run_case(case: dict, st=None) -> Tuple[List[dict], str]:
    st = st or setup()
    np = st["np"]
    viols: List[dict] = []
    opts = f"{case.get('smoothing', 'modsinc')}/{case.get('interpolation', 'makima')}/{'Y' if case.get('adm') else 'Z'}"

    def viol(kind, what, detail=""):
        viols.append({"key": f"zhit|{kind}", "what": what, "case": case, "detail": detail})

    part = case["part"]
    if part == "filters":
        from pyimpspec.analysis.zhit.smoothing import _smooth_phase

        x = np.linspace(10, -3, 41)
        if case.get("xgrid") == "uneven":
            x = 10 - 13 * (np.arange(41) / 40.0) ** 1.7   # same end points, uneven spacing (only for the filter that is given x: lowess)
        if case.get("xlen"):
            x = np.linspace(10, -3, int(case["xlen"]))   # boundary sizes: as many data points as the filter window, or one more
        y = np.full(len(x), -0.7) if case["shape"] == "constant" else 0.03 * x - 0.5
        m, p = case["np_order"]
        try:
            out = _smooth_phase(case["smoothing"], m, p, 3, x, y.copy())
        except Exception as e:
            if isinstance(e, (st["ZHITError"], ValueError)) and exc_signature(e).startswith(type(e).__name__ + "@analysis/zhit"):
                return [], "refused"
            viol(f"filter-raises|{case['smoothing']}|{type(e).__name__}", f"{case['smoothing']} filter (m={m}, p={p}) raised {type(e).__name__}: {str(e)[:80]}")
            return viols, "violation"
        err = float(np.max(np.abs(out - y)))
        if not err <= 1e-10:
            viol(f"filter-changes-{case['shape']}-data|{case['smoothing']}" + ("|uneven-grid" if case.get("xgrid") else "") + (f"|points=window+{int(case['xlen']) - m}" if case.get("xlen") else ""), f"{case['smoothing']} filter (m={m}, p={p}) changes exactly {case['shape']} phase data by {err:.3g}")
        return viols, "ok"
    if part == "window":
        from pyimpspec.analysis.zhit import weights as W

        if len(W._WINDOW_FUNCTIONS) == 0:
            W._initialize_window_functions()
        hi, lo, n = GRIDS["g43"]
        log_f = np.log10(np.logspace(hi, lo, n))
        try:
            w = W._generate_weights(log_f, case["window"], float(case["center"]), float(case["width"]))
        except Exception as e:
            viol(f"window-raises|{case['window']}|{type(e).__name__}", f"window '{case['window']}' (centre {case['center']}, width {case['width']}) raised {type(e).__name__}: {str(e)[:80]}")
            return viols, "violation"
        lo_, hi_ = case["center"] - case["width"] / 2, case["center"] + case["width"] / 2
        inside = (log_f >= lo_) & (log_f <= hi_)
        if np.any(w < 0) or np.any(w > 1) or np.any(~np.isfinite(w)):
            viol(f"window-weights-outside-[0,1]|{case['window']}", f"window '{case['window']}' produces weights outside [0, 1]")
        elif np.any(w[~inside] != 0):
            viol(f"window-nonzero-outside|{case['window']}", f"window '{case['window']}' gives non-zero weight outside centre +- width/2")
        elif case["window"] == "boxcar" and np.any(w[inside] != 1):
            viol("window-boxcar-not-one-inside", "boxcar window is not 1 inside centre +- width/2")
        elif inside.sum() >= 3 and not np.any(w[inside] > 0):
            viol(f"window-all-zero|{case['window']}", f"window '{case['window']}' gives zero weight everywhere inside the window")
        return viols, "ok"

    if part == "window-sequence":
        # the same named window on two grids with equally many points but different frequency ranges, one call after the other in
        # this (freshly forked) process; the modulus is corrupted outside the window, so only correctly placed weights give the truth
        lo_, hi_ = case["center"] - case["width"] / 2, case["center"] + case["width"] / 2
        for gname in case["grids"]:
            c2 = dict(case, grid=gname)
            f, Z = make_data(c2, st)
            outside = (np.log10(f) < lo_ - 1e-9) | (np.log10(f) > hi_ + 1e-9)
            Zc = np.where(outside, Z * 3.0, Z)
            try:
                r = zhit_call(f, Zc, c2, st, None)
            except Exception as e:
                viol(f"raises|{type(e).__name__}|{exc_signature(e).split('@')[-1]}|named-window", f"perform_zhit raised {type(e).__name__}: {str(e)[:90]}")
                return viols, "violation"
            inside = ~outside
            err = float(np.max(np.abs(np.abs(r.impedances[inside]) / np.abs(Z[inside]) - 1)))
            if not err <= 2e-4:
                viol(f"offset-uses-points-outside-the-window|{'first' if gname == case['grids'][0] else 'second'}-call",
                     f"window '{case['window']}' (centre {case['center']}, width {case['width']}) on grid {gname}: the offset is influenced by points outside the window (modulus error inside the window {err:.3g}) - "
                     + ("first call" if gname == case["grids"][0] else f"after an earlier call with the same window on grid {case['grids'][0]}"))
                return viols, "violation"
        return viols, "ok"
    f, Z = make_data(case, st)
    w = weights_for(case, f, st)
    try:
        r = zhit_call(f, Z, case, st, w)
    except Exception as e:
        if isinstance(e, (st["ZHITError"], ValueError, TypeError)) and case.get("expect_refusal"):
            return [], "refused"
        if case.get("expect_refusal") is None and isinstance(e, st["ZHITError"]):
            return [], "refused"
        viol(f"raises|{type(e).__name__}|{exc_signature(e).split('@')[-1]}|{'default-window' if (w is None and not case.get('window')) else ('named-window' if w is None else 'custom-weights')}",
             f"perform_zhit raised {type(e).__name__}: {str(e)[:90]} [{opts}]")
        return viols, "violation"
    if case.get("expect_refusal"):
        # combination documented as unsupported completed anyway: not a violation of this property
        pass
    if len(r.impedances) != len(Z):
        viol("length", "result has a different number of points")
        return viols, "violation"
    ratio = np.abs(r.impedances) / np.abs(Z)
    err = float(np.max(np.abs(ratio - 1)))
    if part == "constant-phase":
        if not err <= 2e-4:
            viol(f"constant-phase-modulus|{opts}", f"reconstructed modulus of a constant-phase spectrum ({case['spec']}) deviates by {err:.3g} (> 2e-4) [{opts}]",
                 f"np_order={case.get('np_order')} weights={case.get('weights', case.get('window'))} grid={case.get('grid', 'g43')}")
    elif part == "ladder":
        # frozen per-ladder bands: about 1.6 x the largest deviation over all smoothing x interpolation options on the unchanged tree
        band = {"RC": 0.07, "RC-RC": 0.07, "RQ": 0.07, "RQ-RC": 0.04, "RQ-RQ": 0.04, "RC3": 0.15, "RC-top": 0.10, "RQ-top-RC": 0.11, "RC-bottom": 0.08}.get(case["spec"], 0.15)
        if not err <= band:
            viol(f"ladder-modulus|{opts}", f"reconstructed modulus of ladder {case['spec']} deviates by {err * 100:.1f} % (> {band * 100:.0f} %) [{opts}]")
    elif part == "scaling":
        a = case["factor"]
        r2 = zhit_call(f, Z * a, case, st, w)
        d = float(np.max(np.abs(r2.impedances - a * r.impedances) / np.abs(a * r.impedances)))
        if not d <= 2e-4:   # the offset is an lmfit fit with its own convergence tolerance: same band as the exactness clause
            viol(f"scaling|{opts}", f"scaling the impedance by {a:g} does not scale the reconstruction by the same constant (rel. {d:.3g}) [{opts}]")
        if r.pseudo_chisqr > 1e-6 and abs(r2.pseudo_chisqr / r.pseudo_chisqr - 1) > 1e-2:
            viol(f"scaling-chisqr|{opts}", f"scaling the impedance by {a:g} changes pseudo chi-squared by a factor {r2.pseudo_chisqr / r.pseudo_chisqr:.6g}")
    elif part == "window-sequence":
        pass  # handled before the generic call (see below)
    elif part == "zero-weight":
        # moduli at zero-weight points changed (phase kept): the reconstruction must be bit-identical
        Z2 = Z.copy()
        zero = np.where(w == 0.0)[0]
        for j, i in enumerate(zero):
            Z2[i] = Z2[i] * (3.0 if j % 2 == 0 else 0.2)
        r2 = zhit_call(f, Z2, case, st, w)
        d = float(np.max(np.abs(np.abs(r2.impedances) / np.abs(r.impedances) - 1)))
        if not d <= 1e-9:   # round-off of the (zero-weighted) terms in the offset fit is tolerated; an influence is orders of magnitude larger
            viol(f"zero-weight-points-influence-offset|{opts}", f"changing the modulus at zero-weight points changes the reconstruction (rel. {d:.3g}) [{opts}]")
    return viols, "ok"


def _run_isolated(case):
    from vf.explore import in_child

    return in_child(lambda: run_case(case))


def _chunk(cases) -> dict:
    st = setup()
    viols: Dict[str, dict] = {}
    nontrivial = []
    outcomes: Dict[str, int] = {}
    n = 0
    for case in cases:
        try:
            v, o = _run_isolated(case) if case["part"] == "window-sequence" else run_case(case, st)
        except Exception as e:
            v, o = [{"key": f"zhit|raises|{type(e).__name__}|{exc_signature(e).split('@')[-1]}|second-call", "what": f"perform_zhit raised {type(e).__name__}: {str(e)[:90]}",
                     "case": case, "detail": ""}], "violation"
        n += 1
        outcomes[f"{case['part']}:{o}"] = outcomes.get(f"{case['part']}:{o}", 0) + 1
        nontrivial.append(hash(repr(sorted(case.items()))))
        for x in v:
            old = viols.get(x["key"])
            if old is None:
                x["count"] = 1
                viols[x["key"]] = x
            else:
                old["count"] += 1
    return {"n": n, "nontrivial": nontrivial, "outcomes": outcomes, "violations": list(viols.values()), "samples": cases[:1]}


def cases(thorough: bool) -> List[dict]:
    out: List[dict] = []
    specs = list(CONSTANT_PHASE) if thorough else ["R", "C", "L", "Q0.8", "W", "R-giga", "C-femto"]
    # (1) constant phase: smoothing x interpolation x representation
    for sp in specs:
        for sm, ip, adm in itertools.product(SMOOTHERS, INTERPOLATORS, (False, True)):
            out.append({"part": "constant-phase", "spec": sp, "smoothing": sm, "interpolation": ip, "adm": adm, "np_order": (5, 2), "weights": "ones"})
    # (2) num_points / polynomial_order, weights, grids on a reduced set of option pairs
    for sp in (specs if thorough else ["C", "Q0.8"]):
        for sm in SMOOTHERS:
            for npo in NP_ORDER:
                refusal = (sm == "modsinc" and npo[1] % 2 == 1)
                out.append({"part": "constant-phase", "spec": sp, "smoothing": sm, "interpolation": "makima", "adm": False, "np_order": npo, "weights": "mid",
                            "expect_refusal": True if refusal else None})
        for wk, grid in itertools.product(("mid", "ramp"), GRIDS):
            out.append({"part": "constant-phase", "spec": sp, "smoothing": "lowess", "interpolation": "akima", "adm": True, "np_order": (5, 2), "weights": wk, "grid": grid})
    # (3) named windows and the default call
    for sp in (["R", "Q0.8", "W"] if not thorough else specs):
        out.append({"part": "constant-phase", "spec": sp, "default_call": True})
        for win, center, width in itertools.product(("boxcar", "hann", "blackman"), (0.5, 1.5, 2.5), (2.0, 3.0)):
            out.append({"part": "constant-phase", "spec": sp, "window": win, "center": center, "width": width, "smoothing": "none", "interpolation": "pchip"})
        # windows that give no point a positive weight (beyond the spectrum; between two points; only the zero edges of a hann window
        # coincide with points): a refusal or the exact modulus, never an un-offset reconstruction
        for win, center, width in (("boxcar", 8.0, 1.0), ("hann", -6.0, 2.0), ("boxcar", 1.5, 0.02), ("hann", 1.5 + 1 / 14.0, 2 / 7.0)):
            for adm in (False, True):
                out.append({"part": "constant-phase", "spec": sp, "window": win, "center": center, "width": width, "smoothing": "none", "interpolation": "pchip", "adm": adm})
    # (4) ladders
    for sp in LADDERS:
        out.append({"part": "ladder", "spec": sp})
        if thorough:
            for sm, ip in itertools.product(SMOOTHERS, INTERPOLATORS):
                out.append({"part": "ladder", "spec": sp, "smoothing": sm, "interpolation": ip, "np_order": (5, 2), "weights": "ones"})
    # (5) scaling and zero-weight invariance
    for sp in (["Q0.8", "RQ-RC"] if not thorough else ["R", "Q0.8", "W", "RC", "RQ-RC", "RC3"]):
        for sm in (SMOOTHERS if thorough else ["modsinc", "lowess"]):
            for adm in (False, True):
                for a in (2.0 ** 10, 1e-3, 1e9, 1e-9):
                    out.append({"part": "scaling", "spec": sp, "smoothing": sm, "interpolation": "makima", "adm": adm, "factor": a, "np_order": (5, 2), "weights": "mid"})
                out.append({"part": "zero-weight", "spec": sp, "smoothing": sm, "interpolation": "makima", "adm": adm, "np_order": (5, 2), "weights": "mid"})
    # (5b) the same named window on two grids, one call after the other (fresh process per sequence)
    for sp in (["C", "Q0.8"] if not thorough else ["R", "C", "Q0.8", "W"]):
        for win in ("boxcar", "hann"):
            for grids in (("g43", "g43hi"), ("g43hi", "g43"), ("g43", "g43warp"), ("g43warp", "g43")):
                out.append({"part": "window-sequence", "spec": sp, "window": win, "center": 1.5, "width": 3.0, "grids": list(grids), "smoothing": "none", "interpolation": "pchip"})
    # (6) filters on exactly constant / linear phase
    for sm, npo, shape in itertools.product(SMOOTHERS, NP_ORDER + [(9, 4), (7, 2)], ("constant", "linear")):
        out.append({"part": "filters", "smoothing": sm, "np_order": npo, "shape": shape})
        if sm == "lowess":
            out.append({"part": "filters", "smoothing": sm, "np_order": npo, "shape": shape, "xgrid": "uneven"})
    for sm, npo, shape, extra in itertools.product(SMOOTHERS, [(3, 2), (5, 2), (5, 4), (7, 4), (7, 6), (9, 8)], ("constant", "linear"), (0, 1)):
        out.append({"part": "filters", "smoothing": sm, "np_order": npo, "shape": shape, "xlen": npo[0] + extra})
    # (7) window generator
    wins = ["boxcar", "hann", "hamming", "blackman", "bartlett", "flattop", "nuttall", "cosine", "triang", "parzen", "bohman", "barthann", "blackmanharris"]
    for win, center, width in itertools.product(wins, (0.0, 1.5, 3.0), (1.0, 3.0, 4.5)):
        out.append({"part": "window", "window": win, "center": center, "width": width})
    return out


def run(ctx) -> None:
    thorough = ctx.tier == "thorough"
    setup()
    ctx.rule = ("constant-phase spectra (R, C, L, Q with n in {0.5, 0.8, 1}, W; two parameter scales in thorough) x 5 smoothers x 4 interpolators x "
                "{Z, Y}; (num_points, polynomial_order) in {(3,2),(5,2),(5,3),(7,4)} x smoothers; custom weights (ones, boxcar over the middle third, "
                "ramp) x 3 frequency grids; named windows (boxcar, hann, blackman) x 3 centres x 2 widths and the default call (window='auto'); six "
                "RC/RQ ladders (default options; thorough: all smoother/interpolator pairs); scaling by 2^10, 1e-3, 1e9 and 1e-9; the same named window on two equally long grids in sequence (corrupted moduli outside the window); modification of |Z| at "
                "zero-weight points; every smoothing filter on exactly constant and exactly linear phase for 6 (m, p) pairs; the window generator "
                "for 13 named windows x 3 centres x 3 widths. Tolerances: constant phase 2e-4, ladders frozen per-ladder bands of 4-15 %, scaling 2e-4, zero-weight "
                "invariance 1e-9, filters 1e-10 (calibrated on the unchanged tree, DESIGN C11).")
    ctx.exhaustive = True
    ctx.assumptions = ["spectra are the declared finite set; ladders are judged with frozen per-ladder bands (about 1.6 x the largest deviation on the unchanged tree)"]
    cs = cases(thorough)
    heavy = [c for c in cs if c["part"] not in ("filters", "window")]
    light = [c for c in cs if c["part"] in ("filters", "window")]
    ctx.pmap(_chunk, [[c] for c in heavy] + [light[i::16] for i in range(16)], label="Z-HIT runs")
    ctx.extra["runs"] = len(cs)


def replay(case: dict) -> list:
    case = dict(case)
    if "np_order" in case:
        case["np_order"] = tuple(case["np_order"])
    if case["part"] == "window-sequence":
        return _run_isolated(case)[0]
    return run_case(case)[0]
