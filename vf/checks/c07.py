"""C07 - Kramers-Kronig tests reproduce exactly any spectrum of their own model (E1, exhaustive cross product)."""
from __future__ import annotations

import itertools
import math
import warnings
from typing import Any, Dict, List, Optional, Sequence, Tuple

from vf.refmodels import kk as KK
from vf.util import exc_signature, norm_msg

ID = "C07"
LEVEL = "exploration"
_ST: Dict[str, Any] = {}


def setup():
    if _ST:
        return _ST
    warnings.simplefilter("ignore")
    import numpy as np

    np.seterr(all="ignore")
    import pyimpspec
    from pyimpspec import DataSet, perform_exploratory_kramers_kronig_tests, perform_kramers_kronig_test
    from pyimpspec.analysis.kramers_kronig import evaluate_log_F_ext
    from vf import schedule

    schedule.install()   # `cnls` creates a Pool even for num_procs=1: run it in-process, in order
    _ST.update(np=np, DataSet=DataSet, kk=perform_kramers_kronig_test, ekk=perform_exploratory_kramers_kronig_tests, elf=evaluate_log_F_ext)
    return _ST


def grid(ppd: int, fmax_log: float, decades: int = 5, warp: float = 1.0):
    n = decades * ppd + 1
    if warp == 1.0:
        return [10.0 ** (fmax_log - i / ppd) for i in range(n)]
    return [10.0 ** (fmax_log - decades * (i / (n - 1)) ** warp) for i in range(n)]   # same end points and count, non-uniform spacing


def generating_parameters(case: dict, taus: Sequence[float]):
    scale = case["scale"]
    signs = {"plus": [1], "alternating": [1, -1], "one-negative": [1, 1, -1, 1, 1, 1, 1]}[case["signs"]]
    R0 = scale * 1.7
    coeffs = []
    for k, t in enumerate(taus):
        s = signs[k % len(signs)]
        if case["adm"]:
            coeffs.append(s * t / (scale * (1 + 0.3 * (k % 7))))
        else:
            coeffs.append(s * scale * (1 + 0.3 * (k % 7)))
    C = L = None
    if case["C"]:
        C = (1e-9 / scale) if case["adm"] else (1e-2 / scale)
    if case["L"]:
        L = (1e3 * scale) if case["adm"] else (1e-6 * scale)
    return R0, coeffs, C, L


def design_condition(f, taus, case, Z, np, normalise: bool = True) -> float:
    """Condition number of the (column-normalised) modulus-weighted complex design matrix of the model.
    With normalise=False the columns keep the scales the library gives them (1, 1/(1+jw tau), 1/w, w)."""
    w = 2 * np.pi * np.array(f)
    cols = [np.ones(len(w), dtype=complex)]
    for t in taus:
        cols.append((1j * w / (1 + 1j * w * t)) if case["adm"] else (1 / (1 + 1j * w * t)))
    if case["C"]:
        cols.append(1j * w if case["adm"] else 1 / (1j * w))
    if case["L"]:
        cols.append(1 / (1j * w) if case["adm"] else 1j * w)
    A = np.array(cols).T
    X = (1 / np.array(Z)) if case["adm"] else np.array(Z)
    A = A / np.abs(X)[:, None]
    A = np.vstack([A.real, A.imag])
    if normalise:
        A = A / np.linalg.norm(A, axis=0)
    return float(np.linalg.cond(A))


def run_case(case: dict, st=None) -> Tuple[List[dict], Dict[str, Any]]:
    st = st or setup()
    np = st["np"]
    if case.get("pre"):
        # an earlier test in the same process on a related spectrum (same point count and/or end points, other interior / other
        # impedances): its outcome is not judged here, only that it leaves no trace in the test that follows
        pc = dict({k: v for k, v in case.items() if k != "pre"}, **case["pre"])
        fp = grid(pc["ppd"], pc["fmax"], pc.get("dec", 5), pc.get("warp", 1.0))
        tp = KK.time_constants(fp, pc["num_RC"], pc["lfe"])
        Zp = KK.model_spectrum(fp, tp, pc["adm"], *generating_parameters(pc, tp))
        try:
            st["kk"](st["DataSet"](np.array(fp), np.array(Zp)), test=pc["test"], num_RC=pc["num_RC"], add_capacitance=pc["C"], add_inductance=pc["L"],
                     admittance=pc["adm"], num_F_ext_evaluations=0, log_F_ext=pc["lfe"], num_procs=1, timeout=600)
        except Exception:
            pass
    f = grid(case["ppd"], case["fmax"], case.get("dec", 5), case.get("warp", 1.0))
    taus = KK.time_constants(f, case["num_RC"], case["lfe"])
    R0, coeffs, C, L = generating_parameters(case, taus)
    Z = KK.model_spectrum(f, taus, case["adm"], R0, coeffs, C, L)
    order = case.get("order", "desc")
    if order != "desc":
        # the same points listed in another order (the property is about the spectrum, not about how its rows are listed)
        n_ = len(f)
        idx = {"asc": list(range(n_ - 1, -1, -1)), "two-part": list(range(n_ // 2, n_)) + list(range(0, n_ // 2)),
               "shuffled": sorted(range(n_), key=lambda i: (i * 7919) % n_ if n_ % 7919 else i)}[order]
        data = st["DataSet"](np.array([f[i] for i in idx]), np.array([Z[i] for i in idx]))
    else:
        data = st["DataSet"](np.array(f), np.array(Z))
    cfg = f"{case['test']}|{'Y' if case['adm'] else 'Z'}|C={int(case['C'])}|L={int(case['L'])}"
    if case.get("pre"):
        cfg += "|after-a-test-on-another-spectrum(" + ",".join(sorted(case["pre"])) + ")"
    if order != "desc":
        cfg += f"|points-listed-{order}"
    entry = case.get("entry", "test")
    if entry != "test":
        cfg += f"|via-{entry}"
    if case["test"] == "cnls":
        cfg += f"|scale={case['scale']:g}"   # the non-linear fit starts from fixed initial values: failures are magnitude specific
    info = {"cond": None, "maxres": None}
    viols: List[dict] = []

    raw_cond = design_condition(f, taus, case, Z, np, normalise=False) if (case["C"] or case["L"]) else 0.0

    def viol(kind, what, detail=""):
        if raw_cond > 1e10 and not kind.startswith("raises"):
            # same root cause as the C09 finding: the w and 1/w columns are not equilibrated, so the un-normalised design
            # matrix is numerically rank deficient although the column-normalised problem is well conditioned
            # the tag names implementation and representation, so that only those affected on the unchanged tree are known findings
            tag = f"badly-scaled-w-columns|{case['test']}|{'Y' if case['adm'] else 'Z'}"
            viols.append({"key": f"kk-exact|{kind}|{tag}", "case": case, "detail": detail + f" raw design matrix condition {raw_cond:.2g}",
                          "what": f"{what} [{cfg}; un-normalised design matrix condition {raw_cond:.2g}]"})
            return
        viols.append({"key": f"kk-exact|{kind}|{cfg}", "what": f"{what} [{cfg}]", "case": case, "detail": detail})

    try:
        if entry == "test":
            r = st["kk"](data, test=case["test"], num_RC=case["num_RC"], add_capacitance=case["C"], add_inductance=case["L"],
                         admittance=case["adm"], num_F_ext_evaluations=0, log_F_ext=case["lfe"], num_procs=1, timeout=600)
        else:
            # the other documented entry points with the extension factor fixed by the caller
            kw = dict(test=case["test"], add_capacitance=case["C"], add_inductance=case["L"], admittance=case["adm"], log_F_ext=case["lfe"],
                      num_F_ext_evaluations=0, num_procs=1, timeout=600)
            if entry == "evaluate":
                tests = st["elf"](data, num_RCs=[case["num_RC"]], **kw)[0][1]
            else:
                tests = st["ekk"](data, num_RCs=list(range(2, 2 * case["num_RC"] + 1)), **kw)[0]
            r = [t for t in tests if t.get_num_RC() == case["num_RC"]][0]
    except Exception as e:
        viol(f"raises:{type(e).__name__}", f"perform_kramers_kronig_test raised {type(e).__name__}: {str(e)[:100]} on a spectrum of its own model")
        return viols, info
    res = np.max(np.abs(r.residuals))
    info["maxres"] = float(res)
    tol = 1e-3 if case["test"] == "cnls" else 1e-6
    if not (res <= tol):
        viol("residuals-not-zero", f"max |relative residual| = {res:.3g} (> {tol:g}) for a spectrum generated by the test's own model",
             f"num_RC={case['num_RC']} log_F_ext={case['lfe']} ppd={case['ppd']} fmax=1e{case['fmax']} signs={case['signs']} scale={case['scale']}")
        return viols, info
    got = KK.extract(r)
    if len(got["taus"]) != len(taus) or not np.allclose(got["taus"], taus, rtol=1e-10, atol=0):
        viol("time-constants", "time constants of the fitted circuit differ from eq. 12 (tau_min = 1/(w_max F_ext), tau_max = F_ext/w_min, log spacing)",
             f"got={got['taus'][:3]}... expected={list(taus)[:3]}...")
        return viols, info
    tc = np.array(r.get_time_constants())   # documented as the time constants used; returned in ascending order
    if len(tc) != len(taus) or not np.allclose(np.sort(tc), np.sort(np.array(taus)), rtol=1e-10, atol=0):
        viol("time-constants-getter", "result.get_time_constants() differs from the reference time constants")
    cond = design_condition(f, taus, case, Z, np)
    info["cond"] = cond
    if cond <= 1e6 and case["test"] != "cnls":
        # a parameter is judged only if it matters: a relative change of it moves the spectrum by >= 10 % of that change somewhere
        def sens(which, k=None):
            R0_, co_, C_, L_ = R0, list(coeffs), C, L
            h = 1e-3
            if which == "R":
                R0_ = R0 * (1 + h)
            elif which == "coeff":
                co_[k] = co_[k] * (1 + h)
            elif which == "C":
                C_ = C * (1 + h)
            else:
                L_ = L * (1 + h)
            Z2 = np.array(KK.model_spectrum(f, taus, case["adm"], R0_, co_, C_, L_))
            return float(np.max(np.abs(Z2 - np.array(Z)) / np.abs(np.array(Z))) / h)

        ptol = 1e-4
        bad = []
        judged = 0
        if sens("R") >= 0.1:
            judged += 1
            if abs(got["R0"] - R0) > ptol * abs(R0):
                bad.append(("R", got["R0"], R0))
        for k, (a, b) in enumerate(zip(got["coeffs"], coeffs)):
            if sens("coeff", k) >= 0.1:
                judged += 1
                if abs(a - b) > ptol * abs(b):
                    bad.append((f"{'C' if case['adm'] else 'R'}_{k + 1}", a, b))
                    break
        if C is not None and sens("C") >= 0.1:
            judged += 1
            if got["C"] is None or abs(got["C"] - C) > ptol * abs(C):
                bad.append(("C", got["C"], C))
        if L is not None and sens("L") >= 0.1:
            judged += 1
            if got["L"] is None or abs(got["L"] - L) > ptol * abs(L):
                bad.append(("L", got["L"], L))
        info["judged_parameters"] = judged
        if bad:
            viol("parameters-not-recovered", f"generating parameter {bad[0][0]} not recovered: {bad[0][1]!r} vs {bad[0][2]!r} (design matrix condition {cond:.2g})",
                 f"num_RC={case['num_RC']} log_F_ext={case['lfe']} ppd={case['ppd']} fmax=1e{case['fmax']} signs={case['signs']} scale={case['scale']}")
    if not (r.pseudo_chisqr <= (1e-5 if case["test"] == "cnls" else 1e-11)):
        viol("pseudo-chisqr-not-zero", f"pseudo chi-squared {r.pseudo_chisqr:.3g} for an exactly representable spectrum")
    return viols, info


def _chunk(cases) -> dict:
    st = setup()
    viols: Dict[str, dict] = {}
    nontrivial = []
    outcomes: Dict[str, int] = {}
    n = 0
    maxres = 0.0
    judged_total = 0
    for case in cases:
        v, info = run_case(case, st)
        judged_total += info.get("judged_parameters", 0) or 0
        n += 1
        o = "exact" if not v else "violation"
        if info["cond"] is not None:
            o += "+recovery-judged" if info["cond"] <= 1e6 and case["test"] != "cnls" else "+residuals-only"
        outcomes[o] = outcomes.get(o, 0) + 1
        if info["maxres"] is not None and case["test"] != "cnls":
            maxres = max(maxres, info["maxres"])
        jp = info.get("judged_parameters", 0)
        nontrivial.append(hash(repr(sorted(case.items()))))
        for x in v:
            old = viols.get(x["key"])
            if old is None:
                x["count"] = 1
                viols[x["key"]] = x
            else:
                old["count"] += 1
    return {"n": n, "nontrivial": nontrivial, "outcomes": outcomes, "violations": list(viols.values()),
            "samples": [cases[0]] if cases else [], "stats": {"parameters_judged": judged_total}}


def cases(thorough: bool) -> List[dict]:
    out: List[dict] = []
    lfes = [-1.0, -0.5, 0.0, 0.3, 0.7, 1.0] if thorough else [-0.5, 0.0, 0.7]
    grids = [(5, 4), (10, 4), (10, 6), (3, 4), (20, 4), (5, 2)]
    scales = [1e-3, 1e-2, 1e-1, 1.0, 1e1, 1e2, 1e3] if thorough else [1e-3, 1e-2, 1.0, 1e2, 1e3]
    num_RCs = [2, 3, 5, 8, 15] if thorough else [2, 5, 15]
    for test in KK.LINEAR_TESTS:
        for adm, C in itertools.product((False, True), (False, True)):
            for L in ((True,) if test.endswith("-inv") else (False, True)):
                for ppd, fmax in grids:
                    for num_RC in num_RCs:
                        for lfe in lfes:
                            for signs in ("plus", "alternating", "one-negative"):
                                for scale in scales:
                                    if num_RC + int(C) + int(L) > (5 * ppd + 1) // 2:
                                        continue  # fewer than two data points per unknown: not a well-posed (well-conditioned) test
                                    out.append({"test": test, "adm": adm, "C": C, "L": L, "ppd": ppd, "fmax": fmax, "num_RC": num_RC,
                                                "lfe": lfe, "signs": signs, "scale": scale})
    # extreme magnitudes (mOhm .. GOhm level) on one grid
    for test in KK.LINEAR_TESTS:
        for adm, C in itertools.product((False, True), (False, True)):
            for L in ((True,) if test.endswith("-inv") else (False, True)):
                for num_RC in num_RCs:
                    for lfe in lfes:
                        for signs in ("plus", "alternating"):
                            for scale in ((1e-9, 1e-6, 1e6, 1e9) if thorough else (1e-9, 1e9)):
                                out.append({"test": test, "adm": adm, "C": C, "L": L, "ppd": 10, "fmax": 4, "num_RC": num_RC, "lfe": lfe,
                                            "signs": signs, "scale": scale})
    # the points listed in another order; the other entry points that accept a fixed extension factor
    for test in KK.LINEAR_TESTS:
        for adm in (False, True):
            for C, L in (((False, True), (True, True)) if test.endswith("-inv") else ((False, False), (True, True))):
                base = {"test": test, "adm": adm, "C": C, "L": L, "ppd": 10, "fmax": 4, "num_RC": 6, "signs": "plus", "scale": 1.0}
                for order in ("asc", "two-part", "shuffled"):
                    for lfe in ((0.0, 0.3) if thorough else (0.3,)):
                        out.append(dict(base, lfe=lfe, order=order))
                for entry in ("evaluate", "exploratory"):
                    for lfe in (-0.5, 0.3):
                        out.append(dict(base, lfe=lfe, entry=entry))
    # spectra narrower than twice the contraction: the range of time constants collapses / turns around (tau_min >= tau_max)
    for test in KK.LINEAR_TESTS:
        for adm in (False, True):
            for C, L in (((False, True),) if test.endswith("-inv") else ((False, False), (False, True))):
                for dec, lfe in ((1, -1.0), (1, -0.8), (2, -0.8), (1, -0.3)):   # not (1, -0.5) / (2, -1.0): all time constants equal, singular by construction
                    out.append({"test": test, "adm": adm, "C": C, "L": L, "ppd": 10, "fmax": 3, "dec": dec, "num_RC": 3, "lfe": lfe, "signs": "plus", "scale": 1.0})
    # the extension factor exactly on the limits of its documented range
    for test in KK.LINEAR_TESTS:
        for adm, C in itertools.product((False, True), (False, True)):
            for L in ((True,) if test.endswith("-inv") else (False, True)):
                for lfe in (-1.0, 1.0):
                    out.append({"test": test, "adm": adm, "C": C, "L": L, "ppd": 10, "fmax": 4, "num_RC": 5, "lfe": lfe, "signs": "plus", "scale": 1.0})
    # call sequences: a test preceded, in the same process, by a test on a related spectrum. Grid variants share the point count (41)
    # and one or both end points with the base grid; parameter variants share the frequencies
    GV = {"base": {"ppd": 10, "fmax": 4, "dec": 4, "warp": 1.0}, "other-fmin": {"ppd": 8, "fmax": 4, "dec": 5, "warp": 1.0},
          "other-fmax": {"ppd": 8, "fmax": 5, "dec": 5, "warp": 1.0}, "other-interior": {"ppd": 10, "fmax": 4, "dec": 4, "warp": 1.6}}
    PV = {"other-scale": {"scale": 10.0}, "other-signs": {"signs": "alternating"}, "other-num_RC": {"num_RC": 4}, "other-lfe": {"lfe": 0.3},
          "other-representation": {"adm": None}}
    for test in KK.LINEAR_TESTS:
        for adm in (False, True):
            for C, L in (((False, True), (True, True)) if test.endswith("-inv") else ((False, False), (True, True))):
                for num_RC in ((3, 6) if thorough else (6,)):
                    base = {"test": test, "adm": adm, "C": C, "L": L, "num_RC": num_RC, "lfe": 0.0, "signs": "plus", "scale": 1.0}
                    for a, b in itertools.permutations(GV, 2):
                        out.append(dict(base, **GV[a], pre=dict(GV[b])))
                    for a in (GV if thorough else ("base", "other-interior")):
                        for pv, over in PV.items():
                            over = {k: ((not adm) if v is None else v) for k, v in over.items()}
                            out.append(dict(base, **GV[a], pre=over))
    # cnls: num_RC <= 5 only (about 1-2 s each)
    for adm, C, L in itertools.product((False, True), (False, True), (False, True)):
        for num_RC in ((2, 3, 5) if thorough else (3,)):
            for signs in (("plus", "alternating", "one-negative") if thorough else ("plus",)):
                for scale in ((1e-2, 1.0, 1e2, 1e3) if thorough else (1e-2, 1e2)):
                    out.append({"test": "cnls", "adm": adm, "C": C, "L": L, "ppd": 5, "fmax": 4, "num_RC": num_RC, "lfe": 0.0, "signs": signs, "scale": scale})
    return out


def run(ctx) -> None:
    thorough = ctx.tier == "thorough"
    setup()
    ctx.rule = ("{complex, real, imaginary, complex-inv, real-inv, imaginary-inv} x {Z, Y} x add_capacitance x add_inductance (forced for -inv) x "
                "num_RC in {2, 5, 15 = 3 per decade} ({2,3,5,8,15} thorough) x log_F_ext in {-0.5, 0, 0.7} (6 values thorough) x 6 frequency grids (3/5/10/20 "
                "points per decade over 5 decades, three ranges) x sign patterns of R_k/C_k {all +, alternating, one negative} x 5 (7) magnitude "
                "scales over 6 decades, the points listed ascending / in two parts / shuffled, evaluate_log_F_ext and the exploratory entry point with a fixed extension factor, plus scales 1e-9 and 1e9 (and 1e-6, 1e6 thorough) on one grid; every ordered pair of tests on four grids that share the point count and one or both end points, and pairs "
                "that share the frequencies but differ in magnitude / signs / num_RC / log_F_ext / representation, run back to back in one process "
                "(the second one is judged); cnls on 16 (288) configurations with num_RC <= 5 at 2 (4) magnitude scales. Spectra and time "
                "constants are computed by an independent implementation of eq. 12 / Fig. 1 / Fig. 13. Oracle: max |relative residual| <= 1e-6 "
                "(cnls 1e-3), time constants equal, generating parameters that influence the spectrum (sensitivity >= 0.1) recovered to 1e-4 where the weighted design matrix has condition <= 1e6.")
    ctx.exhaustive = True
    ctx.assumptions = ["configurations with fewer than two data points per unknown (num_RC + C + L > N/2) are outside the well-conditioned range and skipped", "frequency ranges lie inside 1e-1..1e6 Hz (the C09 known finding about the -1/w column at GHz frequencies is not re-tested here)"]
    cs = cases(thorough)
    lin = [c for c in cs if c["test"] != "cnls"]
    cn = [c for c in cs if c["test"] == "cnls"]
    k = 64
    ctx.pmap(_chunk, [lin[i::k] for i in range(k) if lin[i::k]] + [[c] for c in cn], label="model spectra")
    ctx.extra["cases"] = len(cs)


def replay(case: dict) -> list:
    return run_case(case)[0]
