"""C12 - circuit fitting recovers generating parameters and respects constraints (E1 over a declared grid)."""
from __future__ import annotations

import itertools
import math
import warnings
from typing import Any, Dict, List, Optional, Sequence, Tuple

from vf.util import exc_signature, norm_msg

ID = "C12"
LEVEL = "exploration"
_ST: Dict[str, Any] = {}

FAMILIES = {
    "R(RC)": ("R{R=%r}(R{R=%r}C{C=%r})", (100.0, 200.0, 1e-5)),
    "R(RQ)": ("R{R=%r}(R{R=%r}Q{Y=%r,n=0.85})", (100.0, 200.0, 1e-5)),
    "R(RC)(RC)": ("R{R=%r}(R{R=%r}C{C=%r})(R{R=%r}C{C=%r})", (100.0, 200.0, 1e-6, 300.0, 1e-4)),
    "R(RC)(RQ)": ("R{R=%r}(R{R=%r}C{C=%r})(R{R=%r}Q{Y=%r,n=0.8})", (100.0, 200.0, 1e-6, 300.0, 1e-4)),
    "R(C[RW])": ("R{R=%r}(C{C=%r}[R{R=%r}W{Y=%r}])", (100.0, 1e-6, 200.0, 1e-3)),
    "RL(RQ)": ("R{R=%r}L{L=%r}(R{R=%r}Q{Y=%r,n=0.9})", (100.0, 1e-6, 200.0, 1e-5)),
    "R(C[RW]) with the Warburg exponent released": ("R{R=%r}(C{C=%r}[R{R=%r}W{Y=%r,n=0.42}])", (100.0, 1e-6, 200.0, 1e-3)),   # n is fixed by default
}
FAMILIES2 = {   # a second set of time constants (thorough)
    "R(RC)": ("R{R=%r}(R{R=%r}C{C=%r})", (10.0, 500.0, 2e-3)),
    "R(RC)(RC)": ("R{R=%r}(R{R=%r}C{C=%r})(R{R=%r}C{C=%r})", (20.0, 50.0, 1e-5, 400.0, 2e-3)),
    "R(RC)(RQ)": ("R{R=%r}(R{R=%r}C{C=%r})(R{R=%r}Q{Y=%r,n=0.8})", (5.0, 80.0, 5e-5, 150.0, 2e-2)),
}
INV_TRUTH = "R{R=100}(R{R=200}Q{Y=1e-5,n=0.85})(R{R=300}C{C=1e-3})"
INV_START = "R{R=130}(R{R=150}Q{Y=2e-5,n=0.8})(R{R=400}C{C=5e-4})"
METHODS = ["leastsq", "least_squares", "powell", "nelder", "lbfgsb", "bfgs", "tnc", "slsqp", "cg"]
WEIGHTS = ["boukamp", "modulus", "proportional", "unity"]


def setup():
    if _ST:
        return _ST
    warnings.simplefilter("ignore")
    import numpy as np

    np.seterr(all="ignore")
    import pyimpspec
    from pyimpspec import DataSet, fit_circuit, parse_cdc, simulate_spectrum
    from pyimpspec.analysis.fitting import generate_fit_identifiers
    from pyimpspec.exceptions import FittingError
    from vf import schedule

    schedule.install()
    _ST.update(np=np, DataSet=DataSet, fit=fit_circuit, parse_cdc=parse_cdc, sim=simulate_spectrum, ids=generate_fit_identifiers, FittingError=FittingError)
    return _ST


def scaled(c, scale: float):
    for e in c.get_elements():
        for k, v in e.get_values().items():
            if k in ("R", "L"):
                e.set_values(**{k: v * scale})
            elif k in ("C", "Y"):
                e.set_values(**{k: v / scale})
    return c


def blocks(c) -> List[Tuple]:
    """Parameter vector with identical-type parallel blocks sorted by their time constant (fits may swap them)."""
    from pyimpspec.circuit.base import Connection

    top = list(c.get_connections(recursive=False)[0])
    out: List[Tuple] = []
    par = []
    for item in top:
        if isinstance(item, Connection):
            els = item.get_elements()
            vals = tuple(v for e in els for v in e.get_values().values())
            sig = tuple(e.get_symbol() for e in els)
            par.append((sig, vals))
        else:
            out.append((item.get_symbol(),) + tuple(item.get_values().values()))
    par.sort(key=lambda t: (t[0], t[1][0] * t[1][1] if len(t[1]) >= 2 else 0))
    return out + [(s,) + v for s, v in par]


def run_recovery(case: dict, st) -> Tuple[List[dict], str]:
    np = st["np"]
    fams = FAMILIES2 if case.get("set") == 2 else FAMILIES
    tmpl, tv = fams[case["family"]]
    c_true = scaled(st["parse_cdc"](tmpl % tv), case["scale"])
    f = np.logspace(5, -2, 71)
    d = st["sim"](c_true, f)
    c0 = st["parse_cdc"](c_true.serialize(17))
    i = 0
    for e in c0.get_elements():
        for k, v in e.get_values().items():
            if e.is_fixed(k):
                continue
            fac = case["pert"] if i % 2 == 0 else 1 / case["pert"]
            i += 1
            if k == "n":
                v2 = min(1.0, max(0.5, v * (1.1 if fac > 1 else 0.9)))
            else:
                v2 = v * fac
            e.set_values(**{k: v2})
    before = c0.serialize(17)
    viols = []

    def viol(kind, what, detail=""):
        viols.append({"key": f"fit|recovery|{kind}|{case['family']}", "what": f"{what} [{case['family']}, scale {case['scale']:g}, perturbation x{case['pert']:g}]", "case": case, "detail": detail})

    try:
        r = st["fit"](c0, d, num_procs=1)
    except Exception as e:
        viol(f"raises:{type(e).__name__}", f"fit_circuit(method='auto', weight='auto') raised {type(e).__name__}: {str(e)[:100]} on noise-free data of the same circuit")
        return viols, "violation"
    if c0.serialize(17) != before:
        viol("input-circuit-modified", "the circuit passed in was modified")
    bt, bf = blocks(c_true), blocks(r.circuit)
    worst = 0.0
    for a, b in zip(bt, bf):
        for x, y in zip(a[1:], b[1:]):
            worst = max(worst, abs(y / x - 1))
    if len(bt) != len(bf) or worst > 1e-2:
        viol("parameters-not-recovered", f"generating parameters recovered only to {worst:.3g} (tolerance 1e-2), pseudo chi-squared {r.pseudo_chisqr:.3g}",
             f"fitted={bf} generating={bt} method={r.method} weight={r.weight}")
    elif not r.pseudo_chisqr <= 1e-6:
        viol("pseudo-chisqr-not-vanishing", f"pseudo chi-squared {r.pseudo_chisqr:.3g} (> 1e-6) although the parameters are recovered")
    return viols, "ok" if not viols else "violation"


def prepare_invariant(case: dict, st):
    c = st["parse_cdc"](INV_START)
    els = c.get_elements()   # R0, R1, Q, R2, C
    box = case["box"]
    if box == "tight-in":
        els[1].set_lower_limits(R=150.0).set_upper_limits(R=250.0)
        els[4].set_lower_limits(C=2e-4).set_upper_limits(C=5e-3)
    elif box == "tight-out":
        els[1].set_upper_limits(R=180.0)
        els[3].set_lower_limits(R=350.0)
        els[2].set_upper_limits(n=0.82)
    elif box == "value-on-limit":
        els[2].set_values(n=1.0)                 # start (and, if fixed, final) value equal to the class upper limit
        els[0].set_lower_limits(R=130.0)         # start value equal to a user limit
        els[4].set_upper_limits(C=5e-4)
    elif box == "beyond-defaults":
        els[4].set_upper_limits(C=1e5).set_lower_limits(C=1e-9)        # upper limit above the class default (1e3)
        els[2].set_lower_limits(Y=1e-30)                               # lower limit below the class default (1e-24)
        els[0].set_lower_limits(R=-50.0)
    for idx, key in case["fixed"]:
        els[idx].set_fixed(**{key: True})
    return c, els


def run_invariant(case: dict, st) -> Tuple[List[dict], str]:
    np = st["np"]
    truth = st["parse_cdc"](INV_TRUTH)
    f = np.logspace(4, -1, 26)
    data = st["sim"](truth, f)
    c, els = prepare_invariant(case, st)
    before = c.serialize(17)
    data_before = repr(data.to_dict())
    start = [dict(e.get_values()) for e in els]
    ids = st["ids"](c)
    cexpr, cvars = None, None
    if case["constraint"] == "R2=2*R1":
        cexpr = {ids[els[3]].R: f"2*{ids[els[1]].R}"}
    elif case["constraint"] == "R2>=R1+delta":
        cvars = {"delta": dict(value=60.0, min=10.0, max=500.0)}
        cexpr = {ids[els[3]].R: f"{ids[els[1]].R}+delta"}
    elif case["constraint"] == "Y=C/100":
        # an expression in the LAST varied parameter (scalar minimisers evaluate the objective once more, with perturbed values, after the best fit)
        cexpr = {ids[els[2]].Y: f"{ids[els[4]].C}/100"}
    cfg = f"{case['method']}/{case['weight']}"
    viols = []

    def viol(kind, what, detail=""):
        viols.append({"key": f"fit|invariant|{kind}", "what": f"{what} [{cfg}; box={case['box']}; fixed={case['fixed']}; constraint={case['constraint']}]", "case": case, "detail": detail})

    try:
        r = st["fit"](c, data, method=case["method"], weight=case["weight"], max_nfev=200, num_procs=1,
                      constraint_expressions=cexpr, constraint_variables=cvars)
    except st["FittingError"]:
        return [], "refused"
    except Exception as e:
        viol(f"raises:{type(e).__name__}@{exc_signature(e).split('@')[-1]}|box={case['box']}", f"fit_circuit raised {type(e).__name__}: {str(e)[:100]}")
        return viols, "violation"
    if c.serialize(17) != before:
        viol("input-circuit-modified", "the circuit passed in was modified by fit_circuit")
    if repr(data.to_dict()) != data_before:
        viol("input-data-modified", "the data set passed in was modified by fit_circuit")
    rel = r.circuit.get_elements()
    if [e.get_symbol() for e in rel] != [e.get_symbol() for e in els]:
        viol("returned-circuit-structure", "the returned circuit has different elements")
        return viols, "violation"
    for i, e in enumerate(rel):
        name = r.circuit.get_element_name(e)
        for k, v in e.get_values().items():
            lo, hi = els[i].get_lower_limit(k), els[i].get_upper_limit(k)
            if not (lo <= v <= hi):
                viol(f"value-outside-limits|{case['method']}", f"fitted {name}.{k} = {v!r} lies outside [{lo!r}, {hi!r}]")
            if els[i].is_fixed(k) and v != start[i][k]:
                viol("fixed-parameter-moved", f"fixed parameter {name}.{k} changed from {start[i][k]!r} to {v!r}")
            if (e.get_lower_limit(k), e.get_upper_limit(k), e.is_fixed(k)) != (lo, hi, els[i].is_fixed(k)):
                viol("limits-or-fixed-flag-changed", f"limits / fixed flag of {name}.{k} differ between the input and the returned circuit")
            try:
                p = r.parameters[name][k]
            except KeyError:
                viol("table-entry-missing", f"the table of fitted parameters has no entry {name}.{k}")
                continue
            if p.value != v:
                viol("table-value-differs-from-circuit", f"table reports {name}.{k} = {p.value!r}, the returned circuit has {v!r}")
            if bool(p.fixed) != bool(e.is_fixed(k)) and case["constraint"] == "none":
                viol("table-fixed-flag-differs", f"table reports {name}.{k} fixed={p.fixed}, the element says {e.is_fixed(k)}")
    if case["constraint"] == "R2=2*R1":
        a, b = rel[3].get_value("R"), rel[1].get_value("R")
        if abs(a - 2 * b) > 1e-9 * abs(a):
            viol(f"constraint-violated|R2=2*R1|box={case['box']}", f"constraint R_2 = 2*R_1 does not hold for the returned values ({a!r} vs 2 x {b!r})")
    elif case["constraint"] == "Y=C/100":
        a, b = rel[2].get_value("Y"), rel[4].get_value("C")
        if abs(a - b / 100) > 1e-9 * abs(a):
            viol(f"constraint-violated|Y=C/100|box={case['box']}", f"constraint Y = C/100 does not hold for the returned values ({a!r} vs {b!r}/100)")
    elif case["constraint"] == "R2>=R1+delta":
        a, b = rel[3].get_value("R"), rel[1].get_value("R")
        if not (a - b >= 10.0 * (1 - 1e-9) and a - b <= 500.0 * (1 + 1e-9)):
            viol(f"constraint-violated|R2>=R1+delta|box={case['box']}", f"inequality constraint 10 <= R_2 - R_1 <= 500 does not hold for the returned values ({a!r}, {b!r})")
    df = r.to_parameters_dataframe()
    rows = {(row[0], row[1]): row[2] for row in df.itertuples(index=False)}
    for e in rel:
        nm = r.circuit.get_element_name(e)
        for k, v in e.get_values().items():
            if rows.get((nm, k)) != v:
                viol("dataframe-value-differs-from-circuit", f"to_parameters_dataframe() row ({nm}, {k}) = {rows.get((nm, k))!r}, circuit value {v!r}")
                break
    seen, out = set(), []
    for v in viols:
        if v["key"] not in seen:
            seen.add(v["key"])
            out.append(v)
    return out, "ok" if not out else "violation"


def run_selection(case: dict, st) -> Tuple[List[dict], str]:
    np = st["np"]
    truth = st["parse_cdc"](INV_TRUTH)
    f = np.logspace(4, -1, 26)
    rs = np.random.RandomState(5)
    Z = truth.get_impedances(f)
    Z = Z * (1 + 2e-3 * rs.normal(size=len(f)) + 2e-3j * rs.normal(size=len(f)))
    data = st["DataSet"](f, Z)
    methods, weights = case["methods"], case["weights"]
    viols = []
    try:
        multi = st["fit"](st["parse_cdc"](INV_START), data, method=methods, weight=weights, max_nfev=case.get("max_nfev", 100), num_procs=1)
    except st["FittingError"]:
        return [], "refused"
    singles = []
    for m in methods:
        for w in weights:
            try:
                r = st["fit"](st["parse_cdc"](INV_START), data, method=m, weight=w, max_nfev=case.get("max_nfev", 100), num_procs=1)
                singles.append((r.pseudo_chisqr, m, w, r))
            except st["FittingError"]:
                pass
    if not singles:
        return [], "refused"
    best = min(singles, key=lambda t: t[0])
    if not (multi.pseudo_chisqr <= best[0] * (1 + 1e-9)):
        viols.append({"key": "fit|selection|not-the-smallest-pseudo-chisqr", "case": case,
                      "what": f"fit_circuit({methods}, {weights}) returned {multi.method}/{multi.weight} with pseudo chi-squared {multi.pseudo_chisqr:.6g}, but {best[1]}/{best[2]} alone gives {best[0]:.6g}",
                      "detail": str([(round(math.log10(s[0]), 3), s[1], s[2]) for s in singles])})
    elif (multi.method, multi.weight) not in [(s[1], s[2]) for s in singles if s[0] <= best[0] * (1 + 1e-9)]:
        viols.append({"key": "fit|selection|reported-method-weight-not-the-winner", "case": case,
                      "what": f"result labelled {multi.method}/{multi.weight} but the smallest pseudo chi-squared belongs to {best[1]}/{best[2]}", "detail": ""})
    return viols, "ok" if not viols else "violation"


def run_case(case: dict, st=None) -> Tuple[List[dict], str]:
    st = st or setup()
    case = dict(case)
    if "fixed" in case:
        case["fixed"] = [tuple(x) for x in case["fixed"]]
    return {"recovery": run_recovery, "invariant": run_invariant, "selection": run_selection}[case["part"]](case, st)


def _chunk(cases) -> dict:
    st = setup()
    viols: Dict[str, dict] = {}
    nontrivial = []
    outcomes: Dict[str, int] = {}
    n = 0
    for case in cases:
        v, o = run_case(case, st)
        n += 1
        outcomes[f"{case['part']}:{o}"] = outcomes.get(f"{case['part']}:{o}", 0) + 1
        nontrivial.append(hash(repr(sorted((k, repr(x)) for k, x in case.items()))))
        for x in v:
            old = viols.get(x["key"])
            if old is None:
                x["count"] = 1
                viols[x["key"]] = x
            else:
                old["count"] += 1
    return {"n": n, "nontrivial": nontrivial, "outcomes": outcomes, "violations": list(viols.values()), "samples": cases[:1]}


def cases(thorough: bool) -> List[dict]:
    out: List[dict] = []
    combos = list(itertools.product(FAMILIES, (1e-2, 1.0, 1e2), (1.3, 2.0, 3.0)))
    if not thorough:
        combos = [c for i, c in enumerate(combos) if i % 3 == (list(FAMILIES).index(c[0]) % 3)]
    for fam, scale, pert in combos:
        out.append({"part": "recovery", "family": fam, "scale": scale, "pert": pert})
    if thorough:
        for fam, scale, pert in itertools.product(FAMILIES2, (1e-1, 1e1), (1.5, 2.5)):
            out.append({"part": "recovery", "family": fam, "scale": scale, "pert": pert, "set": 2})
    fixeds = [[], [(0, "R")], [(2, "n")], [(4, "C")], [(0, "R"), (4, "C")], [(1, "R"), (2, "Y")]]
    boxes = ["default", "tight-in", "tight-out", "beyond-defaults", "value-on-limit"]
    constraints = ["none", "R2=2*R1", "R2>=R1+delta", "Y=C/100"]
    methods = METHODS if thorough else ["leastsq", "least_squares", "powell", "lbfgsb", "slsqp"]
    weights = WEIGHTS if thorough else ["boukamp", "unity"]
    for m, w, box, fx, con in itertools.product(methods, weights, boxes, fixeds if thorough else fixeds[:5], constraints):
        if con in ("R2=2*R1", "R2>=R1+delta") and any(i in (1, 3) and k == "R" for i, k in fx):
            continue
        if con == "Y=C/100" and (any((i, k) in ((2, "Y"), (4, "C")) for i, k in fx) or box not in ("default", "beyond-defaults")):
            continue
        out.append({"part": "invariant", "method": m, "weight": w, "box": box, "fixed": fx, "constraint": con})
    out.append({"part": "selection", "methods": ["leastsq", "powell", "lbfgsb"], "weights": ["boukamp", "modulus"]})
    out.append({"part": "selection", "methods": ["least_squares", "nelder"], "weights": ["proportional", "unity", "boukamp"]})
    if thorough:
        out.append({"part": "selection", "methods": METHODS, "weights": WEIGHTS, "max_nfev": 60})
    return out


def run(ctx) -> None:
    thorough = ctx.tier == "thorough"
    setup()
    ctx.rule = ("recovery with method = weight = 'auto': families R(RC), R(RQ), R(RC)(RC), R(RC)(RQ), R(C[RW]), RL(RQ) x impedance scale {1e-2, 1, 1e2} x "
                "start perturbation {1.3, 2, 3} alternating up/down per parameter (18 of 54 in quick, all 54 plus a second set of time constants in "
                "thorough); invariants on one R(RQ)(RC) circuit: 5 (9) methods x 2 (4) weights x limit boxes {default, tight containing the truth, "
                "tight excluding the truth, limits beyond the class defaults, start/fixed values lying exactly on a limit} x 5 (6) subsets of fixed parameters x constraint sets {none, Y = C/100 (an expression in the last varied parameter), R_2 = "
                "2 R_1, inequality through an auxiliary variable}; selection: multi-method/multi-weight calls versus the same pairs run one by one. "
                "Oracles: parameters within 1e-2 up to a swap of identical parallel blocks and pseudo chi-squared <= 1e-6; bounds, fixed values "
                "bit-identical, constraints to 1e-9, table and data frame = returned circuit, inputs untouched, winner = smallest pseudo chi-squared.")
    ctx.exhaustive = True
    ctx.assumptions = ["invariant runs use max_nfev=200; a FittingError is an accepted refusal", "recovery tolerances calibrated on the unchanged tree (DESIGN C12)"]
    cs = cases(thorough)
    rec = [c for c in cs if c["part"] != "invariant"]
    inv = [c for c in cs if c["part"] == "invariant"]
    k = 64
    ctx.pmap(_chunk, [[c] for c in rec] + [inv[i::k] for i in range(k) if inv[i::k]], label="fits")
    ctx.extra["fits"] = len(cs)


def replay(case: dict) -> list:
    return run_case(case)[0]
