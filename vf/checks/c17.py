"""C17 - results are reproducible and independent of worker scheduling.

E3: the library's fan-out entry points run under vf.schedule.ControlledPool; every completion order of imap_unordered that is
    feasible for P workers (all orders for small stages, <= k deviations from in-order for large ones) is executed and the
    result must be identical to the serial (num_procs=1) result.
E4: models/PoolModel.tla is model-checked by TLC; its terminal states (the history variable `done`) are the completion orders;
    they are compared as a set with the enumerator of E3 and each one is replayed against the controlled pool and perform_zhit.
Plus: repetition in one process and across fresh processes with different PYTHONHASHSEED; mock data seeds; a free-running
smoke pass with the real multiprocessing.Pool (sampling, reported separately).
"""
from __future__ import annotations

import hashlib
import itertools
import json
import os
import re
import shutil
import subprocess
import sys
import tempfile
import warnings
from typing import Any, Callable, Dict, List, Optional, Sequence, Tuple

from vf import schedule as S
from vf.util import exc_signature

ID = "C17"
LEVEL = "model_checking"
_ST: Dict[str, Any] = {}

SPECTRA = {
    "generic": ("R{R=20}(R{R=100}C{C=1e-4})(R{R=60}Q{Y=2e-3,n=0.8})", 0.0),
    "noisy": ("R{R=20}(R{R=100}C{C=1e-4})(R{R=60}Q{Y=2e-3,n=0.8})", 5e-3),
    "pure-R": ("R{R=100}", 0.0),      # phase exactly 0: every smoother/interpolator reproduces zeros, all candidates tie bit-for-bit
}


def setup():
    if _ST:
        return _ST
    warnings.simplefilter("ignore")
    import numpy as np

    np.seterr(all="ignore")
    import pyimpspec
    from pyimpspec import DataSet, fit_circuit, parse_cdc, perform_kramers_kronig_test, perform_zhit
    from pyimpspec.analysis.kramers_kronig import evaluate_log_F_ext

    _ST.update(np=np, DataSet=DataSet, parse_cdc=parse_cdc, zhit=perform_zhit, fit=fit_circuit, kk=perform_kramers_kronig_test, elf=evaluate_log_F_ext)
    return _ST


def data_for(name: str, st):
    np = st["np"]
    cdc, noise = SPECTRA[name]
    f = np.logspace(4, -1, 26)
    Z = st["parse_cdc"](cdc).get_impedances(f)
    if noise:
        rs = np.random.RandomState(4)
        Z = Z * (1 + noise * rs.normal(size=len(f)) + 1j * noise * rs.normal(size=len(f)))
    return st["DataSet"](f, Z)


def dig(*parts) -> str:
    import numpy as np

    h = hashlib.sha1()
    for p in parts:
        if isinstance(p, np.ndarray):
            h.update(np.ascontiguousarray(p).tobytes())
        else:
            h.update(repr(p).encode())
    return h.hexdigest()[:16]


def entry(case: dict, st) -> Tuple[Callable[[int], Any], Callable[[Any], Tuple[str, str]]]:
    """-> (call(num_procs) -> result, describe(result) -> (digest, human readable summary))"""
    kind = case["entry"]
    d = data_for(case["spectrum"], st)
    if kind == "zhit":
        kw = dict(case["kw"])

        def call(num_procs):
            return st["zhit"](d, num_procs=num_procs, **kw)

        def desc(r):
            return dig(r.smoothing, r.interpolation, r.window, float(r.pseudo_chisqr), r.impedances), f"winner=({r.smoothing}, {r.interpolation}, {r.window}) chi2={float(r.pseudo_chisqr):.6g}"

        return call, desc
    if kind == "fit":
        def call(num_procs):
            c = st["parse_cdc"](case.get("start", "R{R=30}(R{R=80}C{C=2e-4})(R{R=40}Q{Y=4e-3,n=0.7})"))
            return st["fit"](c, d, method=case["methods"], weight=case["weights"], max_nfev=80, num_procs=num_procs)

        def desc(r):
            return dig(r.method, r.weight, float(r.pseudo_chisqr), r.impedances, r.circuit.serialize(17)), f"winner=({r.method}, {r.weight}) chi2={float(r.pseudo_chisqr):.6g}"

        return call, desc
    if kind == "elf":
        def call(num_procs):
            return st["elf"](d, test="real", num_F_ext_evaluations=case["nF"], num_procs=num_procs)

        def desc(out):
            best = out[0]
            return dig([(round(x[0], 12), [float(r.pseudo_chisqr) for r in x[1]], float(x[2])) for x in out]), f"best log_F_ext={best[0]:.6g} statistic={best[2]:.6g} ({len(out)} evaluations)"

        return call, desc
    if kind == "ekk":
        from pyimpspec import perform_exploratory_kramers_kronig_tests

        kw = dict(case["kw"])

        def call(num_procs):
            return perform_exploratory_kramers_kronig_tests(d, num_procs=num_procs, timeout=600, **kw)

        def desc(out):
            results, (best, scores, lo, hi) = out
            return dig([(r.get_num_RC(), float(r.pseudo_chisqr)) for r in results], best.get_num_RC(), lo, hi), \
                f"{len(results)} tests (num_RC {results[0].get_num_RC()}..{results[-1].get_num_RC()}), suggested num_RC={best.get_num_RC()} limits=({lo}, {hi})"

        return call, desc
    if kind == "kk":
        kw = dict(case["kw"])

        def call(num_procs):
            return st["kk"](d, num_procs=num_procs, timeout=600, **kw)

        def desc(r):
            return dig(r.get_num_RC(), float(r.get_log_F_ext()), bool(r.admittance), float(r.pseudo_chisqr), r.impedances), \
                f"num_RC={r.get_num_RC()} log_F_ext={r.get_log_F_ext():.6g} Y={r.admittance} chi2={float(r.pseudo_chisqr):.6g}"

        return call, desc
    raise ValueError(kind)


def order_to_choices(order: Sequence[int], n: int, P: int) -> List[int]:
    running: List[int] = []
    nxt = 0
    out = []
    for t in order:
        while len(running) < P and nxt < n:
            running.append(nxt)
            nxt += 1
        i = running.index(t)
        if len(running) > 1:
            out.append(i)
        running.pop(i)
    return out


def explore_case(case: dict, st=None) -> dict:
    """All schedules (<= max_dev deviations, None = all) of one entry point at pool size P against the serial result."""
    st = st or setup()
    S.install()
    S.State.memo.clear()
    call, desc = entry(case, st)
    viols: List[dict] = []
    name = f"{case['entry']}:{case.get('label', '')}:{case['spectrum']}"
    S.State.schedule = None
    S.State.force_processes = None
    try:
        serial = call(1)
    except Exception as e:
        return {"n": 1, "violations": [{"key": f"schedule|serial-run-raises|{type(e).__name__}|{case['entry']}", "what": f"{name}: the serial run raised {type(e).__name__}: {str(e)[:80]}", "case": case}],
                "outcomes": {"serial-raises": 1}}
    sd, ssum = desc(serial)
    # worker functions must be deterministic: rerun the serial call without memo
    S.State.memo_enabled = False
    again = desc(call(1))[0]
    S.State.memo_enabled = True
    if again != sd:
        viols.append({"key": f"repeat|same-process|{case['entry']}:{case.get('label', '')}", "what": f"{name}: two serial runs in one process differ", "case": dict(case, schedule=None)})
    P = case["P"]
    S.State.force_processes = P
    execs = 0
    distinct: Dict[str, str] = {}
    states = 0
    max_points = 0
    sample = None
    for sch, res in S.explore(lambda sch: _safe(call, max(P, 2)), case.get("max_dev"), max_executions=case.get("cap", 20000)):
        execs += 1
        states += len(sch.points) + 1
        max_points = max(max_points, len(sch.points))
        if isinstance(res, BaseException):
            viols.append({"key": f"schedule|parallel-run-raises|{type(res).__name__}|{case['entry']}", "what": f"{name}: raised {type(res).__name__}: {str(res)[:80]} under schedule {sch.choices()}",
                          "case": dict(case, schedule=sch.choices())})
            break
        dg, summ = desc(res)
        distinct.setdefault(dg, summ)
        if sample is None and sch.deviations() >= 1:
            sample = {"entry": name, "P": P, "schedule": sch.choices(), "choice_points": [p[0] for p in sch.points], "result": summ}
        if dg != sd:
            if not any(v["key"].startswith("schedule|result-depends") for v in viols):
                viols.append({"key": f"schedule|result-depends-on-completion-order|{case['entry']}:{case.get('label', '')}:{case['spectrum']}",
                              "what": f"{name} with {P} workers: completion order {sch.choices()} gives {summ}, the serial run gives {ssum}",
                              "case": dict(case, schedule=sch.choices()), "detail": f"choice points={[(p[0]) for p in sch.points]} labels={sch.labels[:3]}"})
    # explicit schedule family: every stage completes in reversed blocks of k tasks (needs P >= k)
    if case.get("block_reversals") and not viols:
        S.State.force_processes = P
        S.State.schedule = S.Schedule([])
        del S.State.log[:]
        _safe(call, max(P, 2))
        stages = [n_ for n_ in S.State.log if isinstance(n_, int) and n_ > 1]
        S.State.schedule = None
        for k in case["block_reversals"]:
            if k > P:
                continue
            choices: List[int] = []
            for n_ in stages:
                order = []
                for b in range(0, n_, k):
                    order += list(reversed(range(b, min(b + k, n_))))
                choices += order_to_choices(order, n_, P)
            sch = S.Schedule(choices)
            S.State.schedule = sch
            try:
                res = _safe(call, max(P, 2))
            except RuntimeError:
                res = None   # the stage sizes changed under this schedule (itself schedule dependence): fall through to the comparison below
            finally:
                S.State.schedule = None
            execs += 1
            states += len(sch.points) + 1
            if res is None or isinstance(res, BaseException):
                viols.append({"key": f"schedule|result-depends-on-completion-order|{case['entry']}:{case.get('label', '')}:{case['spectrum']}",
                              "what": f"{name} with {P} workers: completing every block of {k} tasks in reverse order changes the number of tasks or raises ({res!r:.80})", "case": dict(case, schedule=sch.choices())})
                break
            dg, summ = desc(res)
            distinct.setdefault(dg, summ)
            if dg != sd:
                viols.append({"key": f"schedule|result-depends-on-completion-order|{case['entry']}:{case.get('label', '')}:{case['spectrum']}",
                              "what": f"{name} with {P} workers: completing every block of {k} tasks in reverse order gives {summ}, the serial run gives {ssum}", "case": dict(case, schedule=sch.choices())})
                break
    S.State.force_processes = None
    capped = execs >= case.get("cap", 20000)
    return {"n": execs, "states": states, "transitions": states - execs, "traces": execs, "violations": viols,
            "outcomes": {f"{case['entry']}:distinct-results={len(distinct)}": 1, f"{case['entry']}:choice-points={max_points}": 1},
            "samples": [sample] if sample else [], "nontrivial": [hash((name, P, case.get("max_dev"), k)) for k in range(execs)],
            "capped": f"{name}: execution cap {case.get('cap', 20000)} hit" if capped else None,
            "stats": {"pools_created": S.State.pools_created, "executions": execs}}


def _safe(call, num_procs):
    try:
        return call(num_procs)
    except BaseException as e:  # noqa
        return e


def replay_schedule(case: dict, st=None) -> List[dict]:
    st = st or setup()
    S.install()
    S.State.memo.clear()
    call, desc = entry(case, st)
    S.State.schedule = None
    S.State.force_processes = None
    sd, ssum = desc(call(1))
    if case.get("schedule") is None:
        S.State.memo_enabled = False
        again = desc(call(1))[0]
        S.State.memo_enabled = True
        return [] if again == sd else [{"key": f"repeat|same-process|{case['entry']}:{case.get('label', '')}", "what": "two serial runs differ", "case": case}]
    S.State.force_processes = case["P"]
    sch = S.Schedule(case["schedule"])
    S.State.schedule = sch
    try:
        res = _safe(call, max(case["P"], 2))
    finally:
        S.State.schedule = None
        S.State.force_processes = None
    name = f"{case['entry']}:{case.get('label', '')}:{case['spectrum']}"
    if isinstance(res, BaseException):
        return [{"key": f"schedule|parallel-run-raises|{type(res).__name__}|{case['entry']}", "what": str(res)[:100], "case": case}]
    dg, summ = desc(res)
    if dg != sd:
        return [{"key": f"schedule|result-depends-on-completion-order|{case['entry']}:{case.get('label', '')}:{case['spectrum']}",
                 "what": f"{name}: schedule {case['schedule']} gives {summ}, serial gives {ssum}", "case": case}]
    return []


# ---------------------------------------------------------------------------------------------------
# E4: TLC

def tlc_orders(N: int, P: int) -> Tuple[List[Tuple[int, ...]], int, int]:
    """Completion orders = `done` of the terminal states of PoolModel for (N, P). Returns (orders, states, transitions-lower-bound)."""
    tmp = tempfile.mkdtemp(prefix="vf_tlc_")
    try:
        shutil.copy(os.path.join(os.path.dirname(os.path.dirname(os.path.dirname(os.path.abspath(__file__)))), "models", "PoolModel.tla"), tmp)
        with open(os.path.join(tmp, "PoolModel.cfg"), "w") as fp:
            fp.write(f"CONSTANTS N = {N}\n          P = {P}\nINIT Init\nNEXT Next\nINVARIANT TypeOK\n")
        r = subprocess.run(["tlc", "-workers", "1", "-noGenerateSpecTE", "-deadlock", "-metadir", os.path.join(tmp, "meta"), "-dump", os.path.join(tmp, "states"), "PoolModel.tla"],
                           cwd=tmp, capture_output=True, text=True, timeout=600)
        if "No error has been found" not in r.stdout:
            raise RuntimeError("TLC failed: " + r.stdout[-600:] + r.stderr[-300:])
        m = re.search(r"(\d+) states generated, (\d+) distinct states found", r.stdout)
        gen, distinct = int(m.group(1)), int(m.group(2))
        txt = open(os.path.join(tmp, "states.dump")).read()
        orders = []
        for block in txt.split("State ")[1:]:
            dm = re.search(r"done = <<(.*?)>>", block)
            seq = tuple(int(x) - 1 for x in dm.group(1).split(",") if x.strip()) if dm else ()
            if len(seq) == N:
                orders.append(seq)
        return sorted(set(orders)), distinct, gen
    finally:
        shutil.rmtree(tmp, ignore_errors=True)


def _pool_order(N: int, P: int, order: Sequence[int]) -> List[int]:
    """Drives ControlledPool.imap_unordered with the schedule that realises `order`; returns the observed completion order."""
    S.State.force_processes = P
    S.State.schedule = S.Schedule(order_to_choices(order, N, P))
    S.State.memo_enabled = False
    try:
        with S.ControlledPool(P) as pool:
            return list(pool.imap_unordered(_ident, list(range(N))))
    finally:
        S.State.schedule = None
        S.State.force_processes = None
        S.State.memo_enabled = True


def _ident(x):
    return x


def tlc_case(case: dict, st=None) -> dict:
    st = st or setup()
    S.install()
    N, P = case["N"], case["P"]
    viols: List[dict] = []
    orders, nstates, ngen = tlc_orders(N, P)
    mine = sorted(S.feasible_orders(N, P))
    if orders != mine:
        viols.append({"key": "tlc|model-and-enumerator-disagree", "what": f"PoolModel (N={N}, P={P}) has {len(orders)} completion orders, the schedule enumerator {len(mine)}", "case": case,
                      "detail": f"only in TLC: {sorted(set(orders) - set(mine))[:3]} only in enumerator: {sorted(set(mine) - set(orders))[:3]}"})
    traces = 0
    for o in orders:
        got = _pool_order(N, P, o)
        traces += 1
        if tuple(got) != tuple(o):
            viols.append({"key": "tlc|controlled-pool-does-not-realise-model-trace", "what": f"model trace {o} replayed on the controlled pool gives {got}", "case": case})
            break
    # replay every model trace against the implementation: the stage with N tasks of perform_zhit follows the trace, the other stage is in-order
    zcase = None
    if N == 5:
        zcase = {"entry": "zhit", "label": "smoothing=auto", "spectrum": "generic", "kw": {"smoothing": "auto", "interpolation": "makima", "window": "boxcar"}, "P": P}
    elif N == 4:
        zcase = {"entry": "zhit", "label": "interpolation=auto", "spectrum": "noisy", "kw": {"smoothing": "modsinc", "interpolation": "auto", "window": "boxcar"}, "P": P}
    if zcase is not None and not viols:
        S.State.memo.clear()
        call, desc = entry(zcase, st)
        S.State.schedule = None
        sd, ssum = desc(call(1))
        for o in orders:
            ch = order_to_choices(o, N, P)
            for stage in (0, 1):
                sched = ch if stage == 0 else [0] * len(ch) + ch
                S.State.force_processes = P
                S.State.schedule = S.Schedule(sched)
                try:
                    res = _safe(call, max(P, 2))
                    used = S.State.schedule.choices()
                finally:
                    S.State.schedule = None
                    S.State.force_processes = None
                traces += 1
                if isinstance(res, BaseException):
                    viols.append({"key": f"tlc|replay-raises|{type(res).__name__}", "what": f"model trace {o} (stage {stage + 1}) raised {type(res).__name__}: {str(res)[:80]}", "case": dict(zcase, schedule=sched)})
                    break
                dg, summ = desc(res)
                if dg != sd:
                    viols.append({"key": f"schedule|result-depends-on-completion-order|{zcase['entry']}:{zcase['label']}:{zcase['spectrum']}",
                                  "what": f"model trace {o} replayed on stage {stage + 1} of perform_zhit ({zcase['label']}, {P} workers) gives {summ}, the serial run gives {ssum}",
                                  "case": dict(zcase, schedule=used)})
                    break
            if viols:
                break
    return {"n": traces, "states": nstates, "transitions": max(ngen - 1, 0), "traces": traces, "violations": viols,
            "outcomes": {f"tlc:N={N},P={P}:orders={len(orders)}": 1}, "nontrivial": [hash(("tlc", N, P, o)) for o in orders],
            "samples": [{"tlc_model": f"PoolModel N={N} P={P}", "distinct_states": nstates, "terminal_traces": len(orders), "first": list(orders[0]), "last": list(orders[-1])}]}


# ---------------------------------------------------------------------------------------------------
# repetition across fresh processes, mock data, free-running pool

REPEAT_SCRIPT = r'''
import sys, warnings, hashlib, json
warnings.simplefilter("ignore")
sys.path.insert(0, "/verif"); sys.path.insert(0, "%(src)s")
import numpy as np
from vf.checks import c17
st = c17.setup()
out = {}
for case in json.loads(sys.argv[1]):
    call, desc = c17.entry(case, st)
    try:
        out[case["id"]] = desc(call(case.get("num_procs", 1)))[0]
    except Exception as e:
        out[case["id"]] = "raises:" + type(e).__name__
print("RESULT " + json.dumps(out))
'''

REPEAT_CASES = [
    {"id": "zhit:auto/auto", "entry": "zhit", "spectrum": "noisy", "kw": {"smoothing": "auto", "interpolation": "auto", "window": "boxcar"}},
    {"id": "zhit:default(window=auto)", "entry": "zhit", "spectrum": "generic", "kw": {}},
    {"id": "fit:3x2", "entry": "fit", "spectrum": "noisy", "methods": ["leastsq", "powell", "lbfgsb"], "weights": ["boukamp", "modulus"]},
    {"id": "elf:nF=10", "entry": "elf", "spectrum": "noisy", "nF": 10},
    {"id": "elf:nF=20", "entry": "elf", "spectrum": "generic", "nF": 20},
    {"id": "kk:default", "entry": "kk", "spectrum": "noisy", "kw": {}},
    {"id": "kk:nF=-10(differential evolution)", "entry": "kk", "spectrum": "noisy", "kw": {"test": "complex", "admittance": True, "num_F_ext_evaluations": -10}},
    {"id": "kk:cnls", "entry": "kk", "spectrum": "generic", "kw": {"test": "cnls", "num_RC": 0, "num_F_ext_evaluations": 0, "admittance": False}},
]


def fresh_process_digests(cases: List[dict], hashseed: str, num_procs: int = 1) -> Dict[str, str]:
    from vf.runner import REPO_SRC

    env = dict(os.environ, PYTHONHASHSEED=hashseed, MPLBACKEND="Agg", OPENBLAS_NUM_THREADS="1", OMP_NUM_THREADS="1")
    payload = json.dumps([dict(c, num_procs=num_procs) for c in cases])
    r = subprocess.run([sys.executable, "-c", REPEAT_SCRIPT % {"src": REPO_SRC}, payload], capture_output=True, text=True, env=env, timeout=3000, cwd="/tmp")
    for line in r.stdout.splitlines():
        if line.startswith("RESULT "):
            return json.loads(line[7:])
    raise RuntimeError("fresh process failed: " + r.stdout[-500:] + r.stderr[-800:])


def repeat_case(arg) -> dict:
    cases, mode = arg
    viols: List[dict] = []
    if mode == "hashseed":
        a = fresh_process_digests(cases, "0")
        b = fresh_process_digests(cases, "12345")
        c = fresh_process_digests(cases, "0")
        for cs in cases:
            k = cs["id"]
            if not (a[k] == b[k] == c[k]):
                viols.append({"key": f"repeat|fresh-processes|{k}", "what": f"{k}: results differ between fresh processes (PYTHONHASHSEED 0 / 12345 / 0): {a[k]} {b[k]} {c[k]}", "case": {"part": "repeat", "mode": mode, "cases": [cs]}})
        return {"n": 3 * len(cases), "traces": 3 * len(cases), "states": 3 * len(cases), "transitions": 2 * len(cases), "violations": viols, "outcomes": {"repeat:fresh-process-triples": len(cases)},
                "nontrivial": [hash(("rep", c_["id"])) for c_ in cases]}
    # free-running real pool (sampling; not part of the exhaustive claim)
    ref = fresh_process_digests(cases, "0", 1)
    n = 0
    for P in (2, 4, 16):
        got = fresh_process_digests(cases, "0", P)
        n += len(cases)
        for cs in cases:
            k = cs["id"]
            if got[k] != ref[k]:
                viols.append({"key": f"free-running|num_procs-changes-result|{k}", "what": f"{k}: num_procs={P} with the real multiprocessing.Pool gives {got[k]}, num_procs=1 gives {ref[k]}",
                              "case": {"part": "repeat", "mode": mode, "cases": [cs], "P": P}})
    return {"n": n, "violations": viols, "outcomes": {"free-running-real-pool-runs(sampling)": n}, "nontrivial": [hash(("free", c_["id"])) for c_ in cases]}


MOCK_OPS = {
    "data(seed=0)": {"noise": 0.5, "seed": 0},
    "data(seed=1)": {"noise": 0.5, "seed": 1},
    "data(seed=0,drift=3)": {"noise": 0.5, "seed": 0, "drift": 3.0},
    "data(seed=0,num_per_decade=3)": {"noise": 0.5, "seed": 0, "num_per_decade": 3},
    "modify-returned-circuit": None,    # generate_mock_circuits(ident) and change every element of what it returns, in place
}


SEED_FAMILY = [0, 1, 2, 7, 42, 12345, 2**31, 2**32 - 5, -1, -2, -7, -42, -12345]


def _mock_apply_kw(ident: str, kw: dict, np):
    from pyimpspec import generate_mock_data

    d = generate_mock_data(ident, **kw)[0]
    return dig(np.concatenate([np.asarray(d.get_frequencies(), dtype=complex), np.asarray(d.get_impedances(), dtype=complex)]))


def _mock_apply(ident: str, op: str, np):
    from pyimpspec import generate_mock_circuits, generate_mock_data

    kw = MOCK_OPS[op]
    if kw is None:
        for c in generate_mock_circuits(ident):
            for el in c.get_elements():
                vals = el.get_values()
                k = next(iter(vals), None)
                if k is not None:
                    try:
                        el.set_values(**{k: vals[k] * 2.0})
                    except Exception:
                        pass
        return None
    d = generate_mock_data(ident, **kw)[0]
    return dig(np.concatenate([np.asarray(d.get_frequencies(), dtype=complex), np.asarray(d.get_impedances(), dtype=complex)]))


def mock_sequence(ident: str, ops: Sequence[str], reference: Dict[str, str], np) -> Optional[dict]:
    for i, op in enumerate(ops):
        got = _mock_apply(ident, op, np)
        if got is not None and got != reference[op]:
            return {"step": i, "op": op}
    return None


def mock_case(arg) -> dict:
    """E2: every sequence of 3 operations per mock identifier; each data request must return what the same request returns as the first
    call of a fresh process (bit-identical for the same seed and arguments, whatever was generated or modified before)."""
    from vf.explore import in_child

    idents = arg
    st = setup()
    np = st["np"]
    viols: Dict[str, dict] = {}
    n = 0
    nontrivial = []
    nseq = 0
    for ident in idents:
        reference = {op: in_child(lambda op=op: _mock_apply(ident, op, np)) for op in MOCK_OPS if MOCK_OPS[op] is not None}
        if reference["data(seed=0)"] == reference["data(seed=1)"]:
            viols["mock|different-seeds-same-data"] = {"key": "mock|different-seeds-same-data", "count": 1, "case": {"part": "mock", "ident": ident, "ops": []},
                                                        "what": f"generate_mock_data({ident!r}) returns the same noisy data for seeds 0 and 1"}
        # "differs between seeds": every pair from a seed family with small, negated and large members (no two of them congruent
        # modulo 2**32, which the documented 32-bit seeding would map onto each other) must give different noisy data
        def _seed_family():
            out = {}
            for sd in SEED_FAMILY:
                d = _mock_apply_kw(ident, {"noise": 0.5, "seed": sd}, np)
                out.setdefault(d, []).append(sd)
            return [v for v in out.values() if len(v) > 1]
        n += len(SEED_FAMILY)
        for same in in_child(_seed_family):
            key = "mock|different-seeds-same-data|" + ("negated" if any(a == -b for a in same for b in same if a != 0) else "other")
            if key not in viols:
                viols[key] = {"key": key, "count": 0, "case": {"part": "mock", "ident": ident, "ops": []},
                              "what": f"generate_mock_data({ident!r}, noise=0.5) returns bit-identical data for the different seeds {same}"}
            viols[key]["count"] += 1
        for ops in itertools.product(MOCK_OPS, repeat=3):
            nseq += 1
            bad = in_child(lambda ops=ops: mock_sequence(ident, ops, reference, np))   # every sequence starts from a fresh process image
            n += sum(1 for o in ops if MOCK_OPS[o] is not None)
            nontrivial.append(hash((ident, ops)))
            if bad is not None:
                # shortest failing suffix-free form: drop operations while it still fails (each candidate in a fresh fork)
                cur = list(ops[: bad["step"] + 1])
                changed = True
                while changed:
                    changed = False
                    for i in range(len(cur) - 1):
                        cand = cur[:i] + cur[i + 1:]
                        if in_child(lambda cand=cand: mock_sequence(ident, cand, reference, np)) is not None:
                            cur, changed = cand, True
                            break
                sig = ">".join("data" if MOCK_OPS[o] is not None and o != cur[-1] else o for o in cur)
                key = f"mock|same-request-different-data|{sig}"
                if key not in viols:
                    viols[key] = {"key": key, "count": 0, "case": {"part": "mock", "ident": ident, "ops": cur},
                                  "what": f"generate_mock_data({ident!r}, ...): after the calls {cur[:-1]} the request {cur[-1]} no longer returns the data it returns as the first call of a fresh process"}
                viols[key]["count"] += 1
    return {"n": n, "violations": list(viols.values()), "outcomes": {"mock:operation-sequences": nseq}, "nontrivial": nontrivial, "states": nseq, "transitions": nseq * 3, "traces": nseq}


def _dispatch(job) -> dict:
    kind, arg = job
    if kind == "explore":
        return explore_case(arg)
    if kind == "tlc":
        return tlc_case(arg)
    if kind == "repeat":
        return repeat_case(arg)
    if kind == "mock":
        return mock_case(arg)
    raise ValueError(kind)


def zhit_cases(thorough: bool) -> List[dict]:
    out = []
    for sp in SPECTRA:
        for label, kw, ntasks in (("smoothing=auto", {"smoothing": "auto", "interpolation": "makima", "window": "boxcar"}, 5),
                                  ("interpolation=auto", {"smoothing": "modsinc", "interpolation": "auto", "window": "boxcar"}, 4)):
            for P in ((2, ntasks) if not thorough else (2, 3, ntasks)):
                # all feasible orders of both stages for P = 2 (3); for P = number of tasks all orders in thorough, <= 2 deviations in quick
                full = (P < ntasks) or thorough
                out.append({"entry": "zhit", "label": label, "spectrum": sp, "kw": kw, "P": P, "max_dev": None if full else 2, "cap": 20000})
        out.append({"entry": "zhit", "label": "smoothing=auto,interpolation=auto", "spectrum": sp, "kw": {"smoothing": "auto", "interpolation": "auto", "window": "boxcar"},
                    "P": 4 if not thorough else 20, "max_dev": 1 if not thorough else 2, "cap": 6000, "block_reversals": [2, 3, 4, 5, 10, 20]})
    out.append({"entry": "zhit", "label": "default(window=auto)", "spectrum": "pure-R", "kw": {"smoothing": "auto"}, "P": 3, "max_dev": 1, "cap": 4000})
    return out


def run(ctx) -> None:
    thorough = ctx.tier == "thorough"
    st = setup()
    ctx.rule = ("perform_zhit with smoothing='auto' (5 tasks per stage), interpolation='auto' (4) and both (20) on three spectra (generic, noisy, and a pure "
                "resistor whose candidates tie bit-for-bit) under the controlled pool with P in {2, n} (thorough {2, 3, n}): all feasible completion "
                "orders of both imap_unordered stages for P = 2 (3) and, in thorough, P = n; <= 2 deviations from in-order completion for P = n in "
                "quick; <= 1 (2) deviations for the 20-task configuration and for window='auto', plus the schedule family 'every block of k tasks completes in reverse order'; fit_circuit (3 methods x 2 weights), "
                "evaluate_log_F_ext (10, 20 evaluations) and the cnls test under the controlled pool (ordered imap/map: zero choice points "
                "expected); every execution is compared with the serial result. TLC: PoolModel for (N, P) in {(3,2),(4,2),(4,3),(5,2),(5,5)}, "
                "terminal traces compared with the enumerator and replayed on the pool and on perform_zhit. Repetition: serial call twice in one "
                "process; 8 entry points in three fresh processes (PYTHONHASHSEED 0/12345/0); mock data: for every definition all sequences of 3 operations from {4 data requests (two seeds, drift, points per decade), modify the circuit returned by generate_mock_circuits in place}, plus pairwise-different data over a family of 13 seeds (small, negated, 2^31, near 2^32), each request compared bit for bit with the same request as first call of a fresh process; a "
                "free-running pass with the real Pool at num_procs 2/4/16 (sampling).")
    ctx.assumptions = ["results travel by pickle and workers share no memory: the controlled pool reproduces exactly that", "time-outs and real OS scheduling are not modelled",
                       "BHT and TR-RBF draw unseeded random start values by design and are excluded"]
    jobs: List[Tuple[str, Any]] = [("explore", c) for c in zhit_cases(thorough)]
    for sp in ("noisy", "pure-R"):
        jobs.append(("explore", {"entry": "fit", "label": "3 methods x 2 weights", "spectrum": sp, "methods": ["leastsq", "powell", "lbfgsb"], "weights": ["boukamp", "modulus"], "P": 3, "max_dev": None, "cap": 500}))
    # a one-resistor fit to a pure-resistor spectrum: powell/boukamp and powell/unity tie bit-for-bit in pseudo chi-squared
    jobs.append(("explore", {"entry": "fit", "label": "tie: powell x {boukamp, unity} + leastsq", "spectrum": "pure-R", "start": "R{R=90}", "methods": ["powell", "leastsq"],
                             "weights": ["boukamp", "unity"], "P": 4, "max_dev": None, "cap": 500}))
    for nF in (10, 20):
        jobs.append(("explore", {"entry": "elf", "label": f"nF={nF}", "spectrum": "noisy", "nF": nF, "P": 4, "max_dev": None, "cap": 500}))
    jobs.append(("explore", {"entry": "kk", "label": "cnls", "spectrum": "generic", "kw": {"test": "cnls", "num_RC": 0, "num_F_ext_evaluations": 0, "admittance": False}, "P": 3, "max_dev": 1 if not thorough else 2, "cap": 4000, "block_reversals": [2, 3]}))
    jobs.append(("explore", {"entry": "ekk", "label": "exploratory cnls,P=8", "spectrum": "noisy", "kw": {"test": "cnls", "num_F_ext_evaluations": 0, "admittance": False}, "P": 8,
                             "max_dev": 1, "cap": 4000, "block_reversals": [2, 3, 5, 8]}))
    jobs.append(("explore", {"entry": "kk", "label": "cnls,P=8", "spectrum": "noisy", "kw": {"test": "cnls", "num_RC": 0, "num_F_ext_evaluations": 0, "admittance": False}, "P": 8, "max_dev": 1, "cap": 4000, "block_reversals": [2, 3, 5, 8]}))
    for N, P in ((3, 2), (4, 2), (4, 3), (5, 2), (5, 5)) + (((6, 3), (6, 6)) if thorough else ()):
        jobs.append(("tlc", {"N": N, "P": P}))
    for i in range(0, len(REPEAT_CASES), 2):
        jobs.append(("repeat", (REPEAT_CASES[i:i + 2], "hashseed")))
    jobs.append(("repeat", ([REPEAT_CASES[0], REPEAT_CASES[2], REPEAT_CASES[3]], "free-running")))
    from pyimpspec.mock_data import _definitions

    idents = [d.get_identifier() for d in _definitions]
    for i in range(0, len(idents), 6):
        jobs.append(("mock", idents[i:i + 6]))
    ctx.pmap(_dispatch, jobs, label="schedules, model traces, repetitions")
    ctx.extra["note"] = ("states = choice points visited + TLC distinct states; traces_validated_against_impl = executions of the real entry points under an explored or "
                         "model-generated schedule (every one compared with the serial result)")


def replay(case: dict) -> list:
    if case.get("part") == "repeat":
        r = repeat_case((case["cases"], case["mode"]))
        return r["violations"]
    if case.get("part") == "mock":
        from vf.explore import in_child

        st = setup()
        ident, ops = case["ident"], case.get("ops") or []
        if not ops:
            return mock_case([ident])["violations"]
        reference = {op: in_child(lambda op=op: _mock_apply(ident, op, st["np"])) for op in MOCK_OPS if MOCK_OPS[op] is not None}
        bad = in_child(lambda: mock_sequence(ident, ops, reference, st["np"]))
        if bad is None:
            return []
        sig = ">".join("data" if MOCK_OPS[o] is not None and o != ops[-1] else o for o in ops)
        return [{"key": f"mock|same-request-different-data|{sig}", "what": f"generate_mock_data({ident!r}): after {ops[:-1]} the request {ops[-1]} differs from a fresh process",
                 "case": case}]
    if "N" in case and "entry" not in case:
        return tlc_case(case)["violations"]
    return replay_schedule(case)
