"""C16 - element names and identifiers are unique and used consistently (E1, bounded-exhaustive over circuits)."""
from __future__ import annotations

import itertools
import math
import re
import warnings
from typing import Any, Dict, List, Optional, Sequence, Tuple

from vf import gen_circuits as G
from vf.util import exc_signature, norm_msg

ID = "C16"
LEVEL = "exploration"

PRIMES = [2, 3, 5, 7, 11, 13, 17, 19, 23, 29, 31, 37, 41, 43, 47, 53, 59, 61, 67, 71, 73, 79, 83, 89, 97, 101, 103, 107, 109, 113,
          127, 131, 137, 139, 149, 151, 157, 163, 167, 173, 179, 181, 191, 193, 197, 199, 211, 223, 227, 229]

SUB_RRC = (("S", ("L",), ("P", ("L",), ("L",))), [G.entry("R"), G.entry("R"), G.entry("C")])
SUB_TLM = (("L",), [G.entry("Tlm", sub={"X_1": (("S", ("L",), ("L",)), [G.entry("R"), G.entry("Q")])})])
PALETTE = {
    "R": G.entry("R"), "C": G.entry("C"), "Q": G.entry("Q"), "L": G.entry("L"),
    "TlmA": G.entry("Tlm", sub={"X_1": SUB_RRC}, name="TlmA"),
    "TlmB": G.entry("Tlm", sub={"Zeta": SUB_TLM, "X_2": (("L",), [G.entry("R")])}, name="TlmB"),
}
LABEL_PATTERNS = ["none", "first:a", "dup-same-type", "dup-any", "first:R_2", "first:a b", "first:a-b", "first:x.y", "all-distinct",
                  "first: 2", "first:1\t"]   # digits with surrounding white space: refused like plain digits, or stored without clashing
_ST: Dict[str, Any] = {}


def setup():
    if _ST:
        return _ST
    warnings.simplefilter("ignore")
    import numpy as np
    import sympy as sp

    np.seterr(all="ignore")
    import pyimpspec  # noqa
    from pyimpspec.circuit.base import Connection, Container, Element

    _ST.update(np=np, sp=sp, Connection=Connection, Container=Container, Element=Element)
    return _ST


def all_elements(circuit, st) -> List[Any]:
    """Reference traversal: every element incl. those nested in container sub-circuits (order irrelevant)."""
    out = []

    def walk(obj):
        if isinstance(obj, st["Connection"]):
            for k in obj:
                walk(k)
        else:
            out.append(obj)
            if isinstance(obj, st["Container"]):
                for con in obj.get_subcircuits().values():
                    if con is not None:
                        walk(con)

    walk(circuit.get_connections(recursive=False)[0])
    return out


def apply_labels(elements: List[Any], pattern: str) -> bool:
    """Returns True when duplicate names are expected."""
    if pattern == "none":
        return False
    if pattern.startswith("first:"):
        try:
            elements[0].set_label(pattern[6:])
        except (ValueError, TypeError):
            pass   # a refused label leaves the element unlabelled; what must not happen is a stored label that clashes with a running number
        return False
    if pattern == "all-distinct":
        for i, e in enumerate(elements):
            e.set_label(f"e{i}x")
        return False
    if pattern == "dup-same-type":
        by: Dict[str, list] = {}
        for e in elements:
            by.setdefault(e.get_symbol(), []).append(e)
        for sym, es in by.items():
            if len(es) >= 2:
                es[0].set_label("dup")
                es[1].set_label("dup")
                return True
        return False
    if pattern == "dup-any":
        if len(elements) >= 2:
            elements[0].set_label("dup")
            elements[-1].set_label("dup")
            return elements[0].get_symbol() == elements[-1].get_symbol()
        return False
    raise ValueError(pattern)


def assign_primes(elements: List[Any]) -> None:
    i = 0
    for e in elements:
        for k, v in e.get_values().items():
            lo, hi = e.get_lower_limit(k), e.get_upper_limit(k)
            if math.isfinite(hi) and hi <= 1.0 and lo >= 0.0:
                e.set_values(**{k: 0.5 + PRIMES[i % 50] / 1000.0})
            else:
                e.set_values(**{k: v * (1 + PRIMES[i % 50] / 100.0)})
            i += 1


def check_circuit(c, expect_dup: bool, label_pattern: str, do_fit: bool, st) -> Tuple[List[dict], Dict[str, Any]]:
    try:
        return _check_circuit(c, expect_dup, label_pattern, do_fit, st)
    except Exception as ex:  # an identifier / naming API call itself failed on a valid circuit
        site = exc_signature(ex)
        return [{"key": f"api|raises|{site}", "what": f"an identifier/naming API call raised {type(ex).__name__}: {str(ex)[:100]}", "detail": ""}], \
            {"elements": len(all_elements(c, st)), "fit": False}


def _check_circuit(c, expect_dup: bool, label_pattern: str, do_fit: bool, st) -> Tuple[List[dict], Dict[str, Any]]:
    np, sp = st["np"], st["sp"]
    viols: List[dict] = []
    info = {"elements": 0, "fit": False}

    def viol(key, what, detail=""):
        viols.append({"key": key, "what": what, "detail": detail})

    ref = all_elements(c, st)
    info["elements"] = len(ref)
    run = c.generate_element_identifiers(running=True)
    ext = c.generate_element_identifiers(running=False)
    if set(map(id, run)) != set(map(id, ref)) or len(run) != len(ref):
        viol("ids|element-set-differs(running)", f"running identifiers cover {len(run)} elements, the circuit has {len(ref)} (incl. container sub-circuits)")
    if set(map(id, ext)) != set(map(id, ref)) or len(ext) != len(ref):
        viol("ids|element-set-differs(per-type)", f"per-type identifiers cover {len(ext)} elements, the circuit has {len(ref)}")
    if sorted(run.values()) != list(range(len(run))):
        viol("ids|running-not-a-bijection", f"running identifiers are {sorted(run.values())}, expected 0..{len(run) - 1}")
    per: Dict[str, list] = {}
    for e, i in ext.items():
        per.setdefault(e.get_symbol(), []).append(i)
    for sym, ids in per.items():
        if sorted(ids) != list(range(1, len(ids) + 1)):
            viol("ids|per-type-not-a-bijection", f"per-type identifiers of {sym} are {sorted(ids)}, expected 1..{len(ids)}")
    names = [c.get_element_name(e, ext) for e in ext]
    if not expect_dup and len(set(names)) != len(names):
        viol("names|not-unique", f"display names are not unique although no duplicate labels were assigned: {sorted(names)}")
    # duplicate names must be refused by the fitting front end
    from pyimpspec.analysis.fitting import generate_fit_identifiers, validate_circuit

    try:
        validate_circuit(c)
        refused = False
    except ValueError:
        refused = True
    if refused != (len(set(names)) != len(names)):
        viol("validate|duplicate-names-" + ("not-refused" if not refused else "refused-without-duplicates"),
             f"validate_circuit {'accepted' if not refused else 'refused'} a circuit whose names are {sorted(names)}")
    # fitting identifiers use the running identifiers
    try:
        fid = generate_fit_identifiers(c)
        for e, i in run.items():
            for k in e.get_values():
                if getattr(fid[e], k) != f"{k}_{i}":
                    viol("fitid|not-parameter_runningid", f"fit identifier of {e.get_symbol()}.{k} is {getattr(fid[e], k)!r}, expected '{k}_{i}'")
                    break
    except Exception as ex:
        viol(f"fitid|raises|{type(ex).__name__}", f"generate_fit_identifiers raised {type(ex).__name__}: {str(ex)[:80]}")
    # symbolic variables <-> elements (differential)
    freqs = np.array([0.37, 12.0, 2.2e3])
    simulable = True
    try:
        Z0 = c.get_impedances(freqs)
    except Exception:
        simulable = False
    label_kind = "plain" if re.fullmatch(r"[A-Za-z0-9_]*", label_pattern.split(":", 1)[-1] if ":" in label_pattern else "") else "label-with-punctuation"
    labels_used = [e.get_label() for e in ref if e.get_label()]
    any_dup_label = len(set(labels_used)) != len(labels_used)
    if simulable and not expect_dup and not any_dup_label:
        try:
            expr = c.to_sympy()
        except Exception as ex:
            viol(f"sympy|to_sympy-raises|{type(ex).__name__}|{label_kind}", f"Circuit.to_sympy() raised {type(ex).__name__}: {str(ex)[:80]} [{label_kind}]")
            expr = None
        if expr is not None:
            symtab = {}
            for e, i in run.items():
                for k, v in e.get_values().items():
                    name = f"{k}_{e.get_label()}" if e.get_label() else f"{k}_{i}"
                    symtab[(id(e), k)] = (name, e, v)
            free = {str(s) for s in expr.free_symbols} | {"f"}
            expected_names = {n for n, _, _ in symtab.values()} | {"f"}
            if free != expected_names:
                viol(f"sympy|variables-differ|{label_kind}", f"symbolic expression has variables {sorted(free - expected_names)} that are no element parameter and lacks {sorted(expected_names - free)} [{label_kind}]")
            elif expr.has(sp.zoo) or expr.has(sp.nan) or expr.has(sp.oo):
                info["symbolic_skipped"] = True  # e.g. an empty series (short) in parallel: 1/0 inside the expression
            else:
                order = sorted(expected_names - {"f"})
                lam = sp.lambdify([sp.Symbol("f")] + [sp.Symbol(n) for n in order], expr, "numpy")
                nominal = {n: v for n, _, v in symtab.values()}
                for (eid, k), (name, e, v) in symtab.items():
                    vals = dict(nominal)
                    pert = v * 1.07 if not (0.0 < v < 1.0 and e.get_upper_limit(k) <= 1.0) else v * 0.93
                    vals[name] = pert
                    with np.errstate(all="ignore"):
                        Zs = np.array(lam(freqs.astype(complex), *[vals[n] for n in order]), dtype=complex) * np.ones(len(freqs))
                    e.set_values(**{k: pert})
                    try:
                        Ze = c.get_impedances(freqs)
                    finally:
                        e.set_values(**{k: v})
                    if not np.allclose(Zs, Ze, rtol=1e-8, atol=0):
                        viol("sympy|variable-denotes-another-element", f"symbol {name} of the circuit expression is not the parameter {k} of the element named {c.get_element_name(e, ext)}",
                             f"perturbing the symbol gives {Zs[:2]}, perturbing the element gives {Ze[:2]}")
                        break
    # CircuiTikZ labels: every element of the connections appears once under the circuit's name for it
    for running in ((False, True) if simulable else ()):
        ids_ = run if running else ext
        try:
            tikz = c.to_circuitikz(running=True) if running else c.to_circuitikz()
            top = [e for e in ref if c.get_connections(recursive=False)[0].contains(e, top_level=False) and not _inside_container(e, c, st)]
        except Exception as ex:
            tikz = None
        if tikz is not None:
            labels = re.findall(r"to\[[A-Za-z ]+=\$(.*?)\$\]", tikz)
            if len(labels) != len(top):
                viol("tikz|component-count", f"CircuiTikZ source has {len(labels)} components for {len(top)} elements in the connections")
            else:
                exp_labels = []
                for e in top:
                    nm = c.get_element_name(e, ids_)
                    sym = e.get_symbol()
                    rest = nm[len(sym) + 1:] if nm.startswith(sym + "_") else nm
                    exp_labels.append(f"{sym}_{{\\rm {rest}}}")
                if sorted(labels) != sorted(exp_labels) and not any(ch in "".join(exp_labels) for ch in "#%&~^"):
                    viol("tikz|labels-are-not-the-circuit-names" + ("|running=True" if running else ""), "CircuiTikZ component labels differ from the names the circuit gives its elements" + (" (running=True)" if running else ""),
                         f"labels={sorted(labels)} expected={sorted(exp_labels)}")
    # table of fitted parameters
    if do_fit and simulable and not expect_dup:
        info["fit"] = True
        try:
            from pyimpspec import fit_circuit, simulate_spectrum

            data = simulate_spectrum(c, np.logspace(4, -2, 25))
            r = fit_circuit(c, data, method="leastsq", weight="boukamp", max_nfev=15, num_procs=1)
            ext2 = r.circuit.generate_element_identifiers(running=False)
            run2 = r.circuit.generate_element_identifiers(running=True)
            for e in ext2:
                nm = r.circuit.get_element_name(e, ext2)
                if nm not in r.parameters:
                    viol("table|name-missing", f"fitted-parameter table has no entry for element {nm}")
                    break
                if set(r.parameters[nm]) != set(e.get_values()):
                    viol("table|parameter-set-differs", f"table entry {nm} has parameters {sorted(r.parameters[nm])}, the element has {sorted(e.get_values())}")
                    break
                bad = [k for k, v in e.get_values().items() if r.parameters[nm][k].value != v]
                if bad:
                    viol("table|value-is-not-that-elements-parameter", f"table reports {nm}.{bad[0]} = {r.parameters[nm][bad[0]].value!r} but the returned circuit's element has {e.get_value(bad[0])!r}")
                    break
            for running in (False, True):
                df = r.to_parameters_dataframe(running=running)
                ids = run2 if running else ext2
                rows = {(row[0], row[1]): row[2] for row in df.itertuples(index=False)}
                for e in ext2:
                    nm = r.circuit.get_element_name(e, ids)
                    for k, v in e.get_values().items():
                        if rows.get((nm, k)) != v:
                            viol(f"table|dataframe(running={running})-pairing", f"to_parameters_dataframe(running={running}) row ({nm}, {k}) = {rows.get((nm, k))!r}, element value {v!r}")
                            break
        except Exception as ex:
            from pyimpspec.exceptions import FittingError

            if isinstance(ex, FittingError):
                info["fit_refused"] = True
            else:
                viol(f"table|fit-or-table-raises|{type(ex).__name__}|{exc_signature(ex)}", f"fit_circuit/_extract_parameters raised {type(ex).__name__}: {str(ex)[:100]}")
    seen, out = set(), []
    for v in viols:
        if v["key"] not in seen:
            seen.add(v["key"])
            out.append(v)
    return out, info


def _inside_container(e, c, st) -> bool:
    top = []

    def walk(obj):
        if isinstance(obj, st["Connection"]):
            for k in obj:
                walk(k)
        else:
            top.append(obj)

    walk(c.get_connections(recursive=False)[0])
    return not any(e is t for t in top)


def build(case: dict, st):
    if case["kind"] == "tree":
        tree = case["tree"]
        fills = [PALETTE[n] for n in case["fill"]]
        c = G.circuit_from_objects(tree, fills) if case.get("route", "objects") == "objects" else G.circuit_from_cdc(tree, fills)
    else:
        from pyimpspec import parse_cdc

        c = parse_cdc(case["cdc"])
    els = all_elements(c, st)
    top = [e for e in els if not _inside_container(e, c, st)]
    expect_dup = apply_labels(top if case["labels"] != "all-distinct" else els, case["labels"])
    assign_primes(els)
    return c, expect_dup


EDITS = ["append-top", "append-nested", "remove-last", "set-subcircuit", "append-in-subcircuit"]


def apply_edit(c, kind: str, st) -> bool:
    """Edits the circuit object in place through the public mutation API. Returns False when not applicable."""
    from pyimpspec import Capacitor, Resistor, Series

    top = c.get_connections(recursive=False)[0]
    if kind == "append-top":
        top.append(Resistor(R=7.0))
        return True
    if kind == "append-nested":
        nested = c.get_connections(recursive=True)[1:]
        if not nested:
            return False
        nested[0].append(Capacitor(C=3e-6))
        return True
    if kind == "remove-last":
        items = list(top)
        if len(items) < 2:
            return False
        top.remove(items[-1])
        return True
    conts = [e for e in all_elements(c, st) if isinstance(e, st["Container"])]
    if not conts:
        return False
    if kind == "set-subcircuit":
        conts[0].set_subcircuits(X_1=Series([Resistor(R=2.0), Capacitor(C=1e-5)]))
        return True
    if kind == "append-in-subcircuit":
        for con in conts[0].get_subcircuits().values():
            if con is not None and len(list(con)) > 0:
                con.append(Resistor(R=11.0))
                return True
        return False
    raise ValueError(kind)


def run_case(case: dict, st=None):
    st = st or setup()
    c, expect_dup = build(case, st)
    v, info = check_circuit(c, expect_dup, case["labels"], bool(case.get("fit")), st)
    if not v and case.get("edit"):
        # the same object after an edit is still a circuit: identifiers, names and exports must describe the edited circuit
        if apply_edit(c, case["edit"], st):
            info["edited"] = True
            assign_primes(all_elements(c, st))
            v, info2 = check_circuit(c, expect_dup, case["labels"], False, st)
            for x in v:
                x["key"] += f"|after-edit:{case['edit']}"
                x["what"] += f" [after {case['edit']} on the same Circuit object]"
            info["elements"] = info2["elements"]
    for x in v:
        x["case"] = case
    return v, info


def _chunk(cases) -> dict:
    st = setup()
    viols: Dict[str, dict] = {}
    nontrivial = []
    outcomes: Dict[str, int] = {}
    n = 0
    sample = None
    for case in cases:
        v, info = run_case(case, st)
        n += 1
        o = f"elements={min(info['elements'], 12)}{'+' if info['elements'] > 12 else ''}" + ("/fit" if info["fit"] else "") + ("/edited" if info.get("edited") else "")
        outcomes[o] = outcomes.get(o, 0) + 1
        if info["elements"] >= 2:
            nontrivial.append(hash(repr(case)))
        if sample is None and info["elements"] >= 6:
            sample = case
        for x in v:
            old = viols.get(x["key"])
            if old is None:
                x["count"] = 1
                viols[x["key"]] = x
            else:
                old["count"] += 1
                if len(repr(x["case"])) < len(repr(old["case"])):
                    x["count"] = old["count"]
                    viols[x["key"]] = x
    return {"n": n, "nontrivial": nontrivial, "outcomes": outcomes, "violations": list(viols.values()), "samples": [sample] if sample else []}


def cases(thorough: bool) -> List[dict]:
    out: List[dict] = []
    names = list(PALETTE)
    lmax = 4 if thorough else 3
    k = 0
    for n in range(1, lmax + 1):
        trees = G.canonical_trees(n) + (G.object_only_trees(3) if n == 3 else [])
        for t in trees:
            nl = G.n_leaves(t)
            if nl == 0:
                continue
            names3 = names if (thorough or nl <= 2) else [x for x in names if x != "TlmB"]   # the nested container only on <= 2 leaves in quick
            fills = itertools.product(names3, repeat=nl) if nl <= 3 else \
                [tuple(names[(i + j * (1 + s)) % len(names)] for j in range(nl)) for i in range(len(names)) for s in range(3)]
            for fi, fill in enumerate(fills):
                # every label pattern on <= 2 leaves; on 3+ leaves a rotating third of the patterns in quick (all in thorough)
                lps = LABEL_PATTERNS if (thorough or nl <= 2) else [LABEL_PATTERNS[(fi + j * 3) % len(LABEL_PATTERNS)] for j in range(3)]
                for lp in lps:
                    k += 1
                    out.append({"kind": "tree", "tree": t, "fill": list(fill), "labels": lp,
                                "route": "cdc" if (k % 5 == 0 and G.cdc_expressible(t)) else "objects",
                                "fit": (k % (40 if thorough else 160) == 0),
                                "edit": EDITS[(k // 3) % len(EDITS)] if (thorough or k % 3 == 0) else None})
    # long chains / ladders: running identifiers share decimal suffixes (1/11/21, 2/12/22)
    chains = ["R" * 12, "R" * 22, "RC" * 8, "R" + "(RC)" * 7, "R" + "(RQ)" * 6 + "L", "(R[RC])" * 4 + "R" * 5,
              "R(RC)Tlm{X_1=[R(RC)],Z_A=[R(RQ)]}" + "(RC)" * 4, "RR(R[R(R[RC])])" + "R" * 9]
    for cdc in chains:
        for lp in ("none", "first:a", "all-distinct", "dup-same-type"):
            out.append({"kind": "cdc", "cdc": cdc, "labels": lp, "fit": lp in ("none", "first:a"), "edit": EDITS[len(out) % len(EDITS)]})
    return out


def run(ctx) -> None:
    thorough = ctx.tier == "thorough"
    setup()
    ctx.rule = ("every canonical skeleton with <= 3 (quick) / <= 4 (thorough) leaves and the object-only shapes x every filling from "
                "{R, C, Q, L, Tlm with nested [R(RC)], Tlm containing a Tlm} (repeated types included) x 9 label patterns (a rotating third of them on 3-leaf circuits in quick; none, one label, "
                "duplicate labels on the same / on any types, a label that looks like an identifier, labels with space / '-' / '.', all "
                "distinct), built from objects or CDC text; plus series chains and ladders of 12-22 elements so that running identifiers share "
                "decimal suffixes; every parameter gets a distinct prime-derived value. Oracles: identifier bijections over a reference traversal "
                "incl. container sub-elements, name uniqueness, validate_circuit, fit identifiers, symbol<->element differential on "
                "Circuit.to_sympy(), CircuiTikZ component count, and (on a subset) the table of a short real fit. Every third circuit (all in thorough) is then edited in place (append to the top-level or a nested connection, remove, set_subcircuits, append inside a sub-circuit) and all oracles are re-evaluated on the same object. Non-trivial = >= 2 elements.")
    ctx.exhaustive = True
    ctx.assumptions = ["fits are short (max_nfev=15) and only used to read the parameter table back"]
    cs = cases(thorough)
    k = 128
    ctx.pmap(_chunk, [cs[i::k] for i in range(k) if cs[i::k]], label="circuits")
    ctx.extra["circuits"] = len(cs)
    ctx.extra["fits"] = sum(1 for c in cs if c.get("fit"))


def replay(case: dict) -> list:
    def tup(t):
        return tuple(tup(x) if isinstance(x, list) else x for x in t)

    case = dict(case)
    if case["kind"] == "tree":
        case["tree"] = tup(case["tree"])
    v, _ = run_case(case)
    return v
