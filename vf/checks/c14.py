"""C14 - the element parameter API is a consistent state machine (E2, explicit-state BFS on the real classes)."""
from __future__ import annotations

from vf import explore

ID = "C14"
LEVEL = "model_checking"
MODEL = "vf.refmodels.element_model"


def run(ctx) -> None:
    thorough = ctx.tier == "thorough"
    ctx.rule = ("breadth-first search over call histories on Resistor, Capacitor, ConstantPhaseElement (2 parameters), KramersKronigRC "
                "(+-inf box, fixed by default) and TransmissionLineModel (container): set_values / set_lower_limits / set_upper_limits with a "
                "5-value menu per parameter (below/at the default lower limit, default value, at/above the default upper limit, +-inf), keyword "
                "and positional-pair forms, two keys in one call, set_fixed, set_label over {'', 'a', ' a b ', '12', non-ASCII, non-string}, "
                "reset_parameter(s), five kinds of invalid call, set_subcircuits and mutation inside a sub-circuit; after every transition the "
                "element is compared with a dictionary reference machine, a fresh instance must still show the class defaults, and in every state "
                "whose values lie within their limits copy / deepcopy / to_string(17)+parse must succeed, be equal and be independent in both "
                "directions. States are de-duplicated on the reference state.")
    ctx.assumptions = ["multi-key setter calls apply keys in order and stop at the first refused key (earlier keys stay applied)",
                       "re-parse equality is skipped for labels the CDC syntax cannot carry (C03 known findings)"]
    plan = [("R", 4), ("C", 4), ("K", 3), ("Q", 3), ("Tlm", 3)] if not thorough else [("R", 6), ("C", 6), ("K", 5), ("Q", 4), ("Tlm", 4), ("Ls", 3)]
    for sym, depth in plan:
        explore.bfs(ctx, MODEL, {"sym": sym}, depth, label=f"{sym} depth<={depth}", max_states=60000 if not thorough else 400000)
    ctx.traces = ctx.transitions
    ctx.extra["note"] = "every explored transition is executed on the real class; traces_validated = transitions"


def replay(case: dict) -> list:
    return explore.replay_history(case["model"], case["args"], case["history"])
