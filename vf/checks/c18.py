"""C18 - every documented option combination completes or is refused up front.

E1: option cross products per entry point x spectrum sizes (full product of the dimensions that drive the progress-step arithmetic,
    all-pairs covering of the rest in quick; larger products in thorough).
E2: the Progress counter as a state machine (vf/refmodels/progress_model.py).
Oracle: completed | refused = TypeError / ValueError / library error raised by an explicit `raise` statement in pyimpspec code that is
not the Progress counter's own check | violation = anything else (IndexError, KeyError, RuntimeError, ... , errors propagating from
NumPy/SciPy/lmfit/statsmodels, the Progress overflow ValueError). Every progress notification must carry 0 <= progress <= 1 and a str.
"""
from __future__ import annotations

import itertools
import warnings
from typing import Any, Callable, Dict, List, Optional, Sequence, Tuple

from vf import explore
from vf.util import exc_signature, frames_of, norm_msg, raised_explicitly_by_pkg

ID = "C18"
LEVEL = "exploration"
_ST: Dict[str, Any] = {}

KK_TESTS = ["complex", "real", "imaginary", "complex-inv", "real-inv", "imaginary-inv", "cnls"]
SMOOTHERS = ["none", "lowess", "modsinc", "savgol", "whithend", "auto"]
INTERPOLATORS = ["akima", "makima", "cubic", "pchip", "auto"]
FIT_METHODS = ["leastsq", "least_squares", "powell", "nelder", "lbfgsb", "bfgs", "tnc", "slsqp", "cg"]
FIT_SYMBOLS = ["C", "G", "Ga", "H", "L", "La", "Ls", "Q", "R", "Tlm", "Tlmbo", "Tlmbq", "Tlmbs", "Tlmno", "Tlmnq", "Tlmns", "W", "Wo", "Ws", "Zarc", "Ha"]
FIT_WEIGHTS = ["boukamp", "modulus", "proportional", "unity"]


def setup():
    if _ST:
        return _ST
    warnings.simplefilter("ignore")
    import numpy as np

    np.seterr(all="ignore")
    import pyimpspec
    import pyimpspec.progress as progress
    from pyimpspec import DataSet, calculate_drt, fit_circuit, parse_cdc, perform_kramers_kronig_test, perform_zhit, simulate_spectrum
    from pyimpspec.exceptions import DRTError, FittingError, KramersKronigError, ZHITError
    from vf import schedule

    schedule.install()
    events: List[Tuple[Any, Any]] = []
    progress._CALLBACKS.clear()
    progress.register(lambda *a, **k: events.append((k.get("progress"), k.get("message"))))
    circuit = parse_cdc("R{R=100}(R{R=200}C{C=1e-5})(R{R=300}C{C=1e-3})")
    _ST.update(np=np, events=events, circuit=circuit, sim=simulate_spectrum, kk=perform_kramers_kronig_test, zhit=perform_zhit, drt=calculate_drt, fit=fit_circuit,
               parse_cdc=parse_cdc, LIB=(KramersKronigError, ZHITError, DRTError, FittingError), DataSet=DataSet)
    return _ST


def allpairs(dims: Sequence[Sequence[Any]]) -> List[Tuple[Any, ...]]:
    """Greedy pairwise covering array: every pair of values of every two dimensions co-occurs in at least one row."""
    import random

    rng = random.Random(7)
    idx = [list(range(len(d))) for d in dims]
    uncovered = set()
    for a, b in itertools.combinations(range(len(dims)), 2):
        for x in idx[a]:
            for y in idx[b]:
                uncovered.add((a, x, b, y))
    rows: List[Tuple[int, ...]] = []
    while uncovered:
        best, best_gain = None, -1
        seed_pair = next(iter(uncovered))
        for _ in range(60):
            cand = [rng.choice(i) for i in idx]
            cand[seed_pair[0]] = seed_pair[1]
            cand[seed_pair[2]] = seed_pair[3]
            gain = sum(1 for a, b in itertools.combinations(range(len(dims)), 2) if (a, cand[a], b, cand[b]) in uncovered)
            if gain > best_gain:
                best, best_gain = cand, gain
        rows.append(tuple(best))
        for a, b in itertools.combinations(range(len(dims)), 2):
            uncovered.discard((a, best[a], b, best[b]))
    return [tuple(dims[i][r[i]] for i in range(len(dims))) for r in rows]


def data_n(n: int, st):
    np = st["np"]
    f = np.logspace(4, -1, n) if n > 1 else np.array([10.0])
    Z = st["circuit"].get_impedances(f)
    rs = np.random.RandomState(n)
    Z = Z * (1 + 1e-3 * rs.normal(size=n) + 1e-3j * rs.normal(size=n))
    return st["DataSet"](f, Z)


def size_class(n: int) -> str:
    return f"n={n}" if n <= 8 else "n>8"


def call_for(case: dict, st) -> Callable[[], Any]:
    d = data_n(case["n"], st)
    np = st["np"]
    e = case["entry"]
    if case.get("np_types"):
        # the same option values as NumPy scalars (numpy.bool_, numpy.int64, numpy.float64): the argument validation accepts them
        def T(v):
            if isinstance(v, bool):
                return np.bool_(v)
            if isinstance(v, int):
                return np.int64(v)
            if isinstance(v, float):
                return np.float64(v)
            if isinstance(v, (tuple, list)):
                return type(v)(T(x) for x in v)
            if isinstance(v, dict):
                return {k: T(x) for k, x in v.items()}
            return v
        case = {k: (T(v) if k not in ("n", "entry", "np_types", "pre_n") else v) for k, v in case.items()}
    if e == "kk":
        num_RC = {"auto": 0, "3": 3, "2n": 2 * case["n"]}[case["num_RC"]]
        if case.get("np_types"):
            num_RC = np.int64(num_RC)
        return lambda: st["kk"](d, test=case["test"], admittance=case["adm"], add_capacitance=case["C"], add_inductance=case["L"], num_RC=num_RC,
                                num_F_ext_evaluations=case["nF"], rapid_F_ext_evaluations=case["rapid"], min_log_F_ext=case["lims"][0], max_log_F_ext=case["lims"][1],
                                num_procs=1, timeout=600)
    if e == "zhit":
        w = np.ones(case["n"]) if case["weights"] == "custom" else None
        m, p = case["np_order"]
        return lambda: st["zhit"](d, smoothing=case["smoothing"], interpolation=case["interpolation"], admittance=case["adm"], window=case["window"], num_points=m,
                                  polynomial_order=p, weights=w, num_procs=1)
    if e == "drt":
        kw = dict(case["kw"])
        if kw.get("circuit"):
            kw["circuit"] = st["parse_cdc"](kw["circuit"])
        if "model_order" in kw and kw["model_order"] == "n+1":
            kw["model_order"] = case["n"] + 1
        if kw.pop("with_fit", False):   # the documented fit= option: a FitResult obtained beforehand for the same circuit

            def with_fit():
                fit = st["fit"](kw["circuit"], d, method="least_squares", weight="boukamp", num_procs=1, max_nfev=200)
                return st["drt"](d, method=case["method"], num_procs=1, **dict(kw, circuit=fit.circuit, fit=fit))
            return with_fit
        return lambda: st["drt"](d, method=case["method"], num_procs=1, **kw)
    if e == "fit":
        return lambda: st["fit"](st["parse_cdc"](case.get("cdc", "R(RC)")), d, method=case["method"], weight=case["weight"], num_procs=1, max_nfev=50)
    raise ValueError(e)


def run_case(case: dict, st=None) -> Tuple[List[dict], str]:
    st = st or setup()
    case = dict(case)
    if case.get("pre_n"):
        # the same call on a spectrum over the same frequency range with another number of points is made first, in the same (freshly
        # forked) process: the call that follows must end the way it ends as the first call of a fresh process
        from vf.explore import in_child

        plain = {k: v for k, v in case.items() if k != "pre_n"}

        def with_pre():
            try:
                call_for(dict(plain, n=case["pre_n"]), st)()
            except BaseException:  # noqa
                pass
            return run_case(plain, st)

        ref_v, ref_o = in_child(lambda: run_case(plain, st))
        got_v, got_o = in_child(with_pre)
        entry = case["entry"] + (":" + case["method"] if case["entry"] == "drt" else "")
        if got_o != ref_o or {v["key"] for v in got_v} != {v["key"] for v in ref_v}:
            what = got_v[0]["what"] if got_v else got_o
            return [{"key": f"totality|{entry}|outcome-depends-on-an-earlier-call|{ref_o}->{got_o}", "case": case, "detail": "",
                     "what": f"{entry} on {case['n']} points: '{ref_o}' as the first call of a process, but '{what}' directly after the same call on "
                             f"{case['pre_n']} points over the same frequency range"}], "violation"
        return [], ref_o
    for k in ("lims", "np_order"):
        if k in case:
            case[k] = tuple(case[k])
    ev = st["events"]
    del ev[:]
    fn = call_for(case, st)
    viols: List[dict] = []
    entry = case["entry"] + (":" + case["method"] if case["entry"] == "drt" else "") + (":" + case["test"] if case["entry"] == "kk" and case["test"] == "cnls" else "")

    def viol(kind, what, detail=""):
        viols.append({"key": f"totality|{entry}|{kind}", "what": f"{what} [{entry}, {case['n']} points]", "case": case, "detail": detail})

    outcome = "completed"
    try:
        fn()
    except BaseException as e:  # noqa
        fr = frames_of(e)
        inner = fr[-1] if fr else ("", "", 0, "")
        in_progress = inner[0].endswith("pyimpspec/progress.py")
        allowed = isinstance(e, (TypeError, ValueError) + st["LIB"])
        if in_progress:
            outcome = "violation"
            viol(f"progress-step-accounting|{norm_msg(e, 24)}", f"aborted by the progress counter's own check: {type(e).__name__}: {str(e)[:70]}", f"options={ {k: v for k, v in case.items() if k not in ('entry', 'n')} }")
        elif allowed and raised_explicitly_by_pkg(e):
            outcome = "refused-" + ("up-front" if not ev else "late")
        else:
            outcome = "violation"
            sig = exc_signature(e)
            origin = "" if inner[0].find("/pyimpspec/") >= 0 else "|propagated-from:" + inner[0].split("/site-packages/")[-1].split("/")[0]
            viol(f"{sig}{origin}|{size_class(case['n'])}", f"{type(e).__name__} escapes: {str(e)[:90]}",
                 f"options={ {k: v for k, v in case.items() if k not in ('entry', 'n')} } raising frame={inner[0].split('/')[-1]}:{inner[1]}:{inner[3][:60]}")
    for p, m in ev:
        if not isinstance(p, (int, float)) or not (0.0 <= p <= 1.0):
            viol("notification-fraction-outside-[0,1]", f"a progress notification carries progress={p!r}")
            break
        if not isinstance(m, str):
            viol("notification-message-not-a-string", f"a progress notification carries message={m!r}")
            break
    return viols, outcome if not viols else "violation"


def _chunk(cases) -> dict:
    st = setup()
    viols: Dict[str, dict] = {}
    nontrivial = []
    outcomes: Dict[str, int] = {}
    n = 0
    for case in cases:
        v, o = run_case(case, st)
        n += 1
        outcomes[f"{case['entry']}:{o}"] = outcomes.get(f"{case['entry']}:{o}", 0) + 1
        nontrivial.append(hash(repr(sorted((k, repr(x)) for k, x in case.items()))))
        for x in v:
            old = viols.get(x["key"])
            if old is None:
                x["count"] = 1
                viols[x["key"]] = x
            else:
                old["count"] += 1
                if x["case"]["n"] > old["case"]["n"] and False:
                    pass
    return {"n": n, "nontrivial": nontrivial, "outcomes": outcomes, "violations": list(viols.values()), "samples": cases[:1]}


def cases(thorough: bool) -> List[dict]:
    out: List[dict] = []
    # --- KK
    sizes = [4, 5, 6, 8, 12, 41]
    families = KK_TESTS
    drive = list(itertools.product(families, ["auto", "3", "2n"], [-10, 0, 5, 10, 21]))      # drives the step arithmetic: full product
    rest_dims = [[False, True, None], [False, True], [False, True], [False, True], [(-1.0, 1.0), (0.0, 1.0), (-0.5, 1.0)]]
    rest = allpairs(rest_dims) if not thorough else list(itertools.product(*rest_dims))
    for n in sizes:
        for i, (test, num_RC, nF) in enumerate(drive):
            if test == "cnls" and num_RC == "2n":
                continue
            if test == "cnls" and (n > 12 or (n > 8 and not (num_RC == "auto" and nF == 0)) or (nF not in (0, 10) and not thorough)):
                continue   # the real cnls kernel is slow: 12 points only with automatic num_RC and no F_ext evaluation
            if n == 41 and (nF in (21, -10)) and not thorough:
                continue
            if test == "cnls" and n > 8:
                rows_n = 2
            else:
                rows_n = 3 if not thorough else 4
            rows = rest if (thorough and test != "cnls" and n <= 12) else [rest[(i + j * 5) % len(rest)] for j in range(rows_n)]
            for adm, C, L, rapid, lims in rows:
                out.append({"entry": "kk", "n": n, "test": test, "num_RC": num_RC, "nF": nF, "adm": adm, "C": C, "L": L, "rapid": rapid, "lims": lims})
    # --- Z-HIT
    zd = [SMOOTHERS, INTERPOLATORS, [False, True], ["none", "custom"], ["auto", "boxcar", "hann", "bogus"], [(3, 2), (5, 3), (2, 2), (1, 1)]]
    for n in (3, 5, 12):
        # full product of the dimensions that drive the step arithmetic (auto options, window) x weights; all-pairs of the rest
        for sm, ip, win, wts in itertools.product(["modsinc", "auto"], ["makima", "auto"], ["auto", "boxcar", "bogus"], ["none", "custom"]):
            if n == 12 and sm == "auto" and ip == "auto" and win == "auto" and not thorough:
                continue
            out.append({"entry": "zhit", "n": n, "smoothing": sm, "interpolation": ip, "adm": False, "weights": wts, "window": win, "np_order": (3, 2)})
        rows = allpairs(zd) if not thorough else list(itertools.product(*zd))
        for sm, ip, adm, wts, win, npo in rows:
            if win == "auto" and (sm == "auto" or ip == "auto") and n > 5:
                continue
            out.append({"entry": "zhit", "n": n, "smoothing": sm, "interpolation": ip, "adm": adm, "weights": wts, "window": win, "np_order": npo})
    # --- DRT
    drt_cfgs = [("tr-nnls", {"mode": m, "lambda_value": lam}) for m in ("real", "imaginary") for lam in (1e-3, -1.0, -2.0)]
    drt_cfgs += [("lm", {"model_order_method": om, "model_order": mo}) for om in ("matrix_rank", "pseudo_chisqr") for mo in (0, 2, "n+1")]
    drt_cfgs += [("bht", {"num_samples": 100, "num_attempts": 2}), ("bht", {"num_samples": 100, "num_attempts": 2, "rbf_type": "cauchy", "derivative_order": 2}),
                 ("mrq-fit", {"circuit": "R(RQ)"}), ("mrq-fit", {"circuit": "R(RC)(RQ)"}), ("mrq-fit", {"circuit": "RL"}), ("mrq-fit", {"circuit": "(RC)C"}), ("tr-rbf", {})]
    for n in (2, 3, 5, 12) + ((1, 8, 25) if thorough else (1,)):
        for method, kw in drt_cfgs:
            out.append({"entry": "drt", "n": n, "method": method, "kw": kw})
    # --- fit
    for n in (1, 2, 5, 12):
        for m, w in itertools.product(FIT_METHODS, FIT_WEIGHTS):
            out.append({"entry": "fit", "n": n, "method": m, "weight": w})
        out.append({"entry": "fit", "n": n, "method": "auto", "weight": "auto"})
        out.append({"entry": "fit", "n": n, "method": ["leastsq", "powell"], "weight": "auto"})
    # the fit= option of mrq-fit, and a fit of every registered element type (parameter symbols with underscores, containers, ...)
    for cdc in ("R(RQ)", "R(RC)(RQ)"):
        out.append({"entry": "drt", "n": 12, "method": "mrq-fit", "kw": {"circuit": cdc, "with_fit": True}})
    for sym in FIT_SYMBOLS:
        out.append({"entry": "fit", "n": 12, "method": "least_squares", "weight": "boukamp", "cdc": "R" + sym})
    # option values given as NumPy scalars
    for test, C, L, adm in itertools.product(KK_TESTS, (False, True), (False, True), (False, True, None)):
        if test == "cnls" and not (C and L and adm is False):
            continue
        out.append({"entry": "kk", "n": 12 if test != "cnls" else 8, "test": test, "num_RC": "3", "nF": 0, "adm": adm, "C": C, "L": L, "rapid": True, "lims": (-1.0, 1.0), "np_types": True})
    out.append({"entry": "kk", "n": 12, "test": "real", "num_RC": "auto", "nF": 10, "adm": None, "C": True, "L": True, "rapid": False, "lims": (-0.5, 1.0), "np_types": True})
    for sm, ip, adm in itertools.product(["modsinc", "savgol"], ["makima", "cubic"], (False, True)):
        out.append({"entry": "zhit", "n": 12, "smoothing": sm, "interpolation": ip, "adm": adm, "weights": "none", "window": "boxcar", "np_order": (5, 2), "np_types": True})
    for method, kw in (("tr-nnls", {"mode": "real", "lambda_value": 1e-3}), ("lm", {"model_order": 2}), ("bht", {"num_samples": 100, "num_attempts": 2})):
        out.append({"entry": "drt", "n": 12, "method": method, "kw": kw, "np_types": True})
    # call sequences: the same options on a spectrum over the same range with another number of points, first
    for a, b in ((12, 21), (21, 12)):
        for sm, ip, win in itertools.product(["modsinc", "auto"], ["makima", "auto"], ["auto", "boxcar", "hann"]):
            if sm == "auto" and ip == "auto" and win == "auto" and not thorough:
                continue
            out.append({"entry": "zhit", "n": a, "pre_n": b, "smoothing": sm, "interpolation": ip, "adm": False, "weights": "none", "window": win, "np_order": (3, 2)})
        for test in ("complex", "real-inv", "cnls"):
            if test == "cnls" and not thorough:
                continue
            out.append({"entry": "kk", "n": a, "pre_n": b, "test": test, "num_RC": "auto", "nF": 0 if test == "cnls" else 5, "adm": None, "C": True, "L": True, "rapid": True, "lims": (-1.0, 1.0)})
        for method, kw in (("tr-nnls", {"mode": "real", "lambda_value": -1.0}), ("tr-nnls", {"mode": "imaginary", "lambda_value": 1e-3}), ("lm", {}), ("mrq-fit", {"circuit": "R(RQ)"})):
            out.append({"entry": "drt", "n": a, "pre_n": b, "method": method, "kw": kw})
        out.append({"entry": "fit", "n": a, "pre_n": b, "method": "least_squares", "weight": "boukamp"})
    # every form of the method argument x every form of the weight argument (single name, 'auto', lists of 1, 2 and 3 names)
    mforms = ["least_squares", "auto", ["leastsq"], ["leastsq", "least_squares"], ["leastsq", "least_squares", "powell"]]
    wforms = ["modulus", "auto", ["boukamp"], ["modulus", "boukamp"], ["unity", "modulus", "proportional"]]
    for n in ((5, 12) if thorough else (12,)):
        for m, w in itertools.product(mforms, wforms):
            if isinstance(m, str) and isinstance(w, str) and "auto" not in (m, w):
                continue
            out.append({"entry": "fit", "n": n, "method": m, "weight": w})
    return out


def run(ctx) -> None:
    thorough = ctx.tier == "thorough"
    setup()
    ctx.rule = ("KK: all 7 test kinds x num_RC {auto, 3, 2n} x num_F_ext_evaluations {-10, 0, 5, 10, 21} as a full product on spectra of "
                "4, 5, 6, 8, 12, 41 points, crossed with an all-pairs covering array (full product in thorough, n <= 12) over admittance {F, T, None} x "
                "add_capacitance x add_inductance x rapid x three (min, max) log F_ext pairs; Z-HIT: {fixed, auto} smoothing x interpolation x window "
                "{auto, boxcar, bogus} x weights as a full product plus an all-pairs array (full product in thorough) over 6 smoothers x 5 interpolators x "
                "{Z, Y} x weights x 4 windows x 4 (num_points, polynomial_order) pairs on 3, 5, 12 points; DRT: tr-nnls 2 modes x 3 lambda modes, lm x 2 "
                "order methods x model_order {0, 2, n+1}, bht (2 configurations), mrq-fit (valid and invalid circuits; with the fit= option), tr-rbf, on 1, 2, 3, 5, 12 points; a least-squares fit of R + every registered element type; "
                "fit: 9 methods x 4 weights, auto/auto and a method list on 1, 2, 5, 12 points, and every form of the method argument (name, auto, "
                "lists of 1-3) x every form of the weight argument (name, auto, lists of 1-3); option values given as NumPy scalars (numpy.bool_ / int64 / float64); Z-HIT / KK / DRT / fit calls made directly after "
                "the same call on a spectrum over the same frequency range with another number of points (outcome must equal that of a first call). Plus an explicit-state search of the Progress counter "
                "(enter / increment / set_message / exit on two nested contexts with totals {1,2,3,7}, register / unregister) to depth 7 (9).")
    ctx.exhaustive = True
    ctx.assumptions = ["refusal = TypeError/ValueError/library error raised by an explicit `raise` statement in pyimpspec code other than the Progress counter's own check",
                       "whether a refusal happens before or after the first notification is recorded as a statistic only",
                       "the cnls kernel is run for real on <= 8 points (12 points with automatic num_RC and no F_ext evaluation); no kernel abstraction was built"]
    cs = cases(thorough)
    heavy = [c for c in cs if c["entry"] == "kk" and (c["test"] == "cnls" or c["nF"] != 0)] + [c for c in cs if c["entry"] == "fit" and (c["method"] == "auto" or isinstance(c["weight"], list) or c["weight"] == "auto" and isinstance(c["method"], list))]
    hid = set(map(id, heavy))
    light = [c for c in cs if id(c) not in hid]
    k = 64
    ctx.pmap(_chunk, [heavy[i::96] for i in range(96) if heavy[i::96]] + [light[i::k] for i in range(k) if light[i::k]], label="option combinations")
    ctx.extra["calls"] = len(cs)
    # E2: the progress counter
    sub = type(ctx)(ctx.prop, "model_checking", ctx.tier, ctx.seed, ctx.workers)
    explore.bfs(sub, "vf.refmodels.progress_model", {"nesting": 2}, 9 if thorough else 7, label="Progress counter")
    ctx.extra["progress_counter_search"] = {"states": sub.states, "transitions": sub.transitions, "parts": sub.parts}
    ctx.n += sub.transitions
    for kname, v in sub.viol.items():
        ctx.violation(v["key"], v["what"], v["case"], v["detail"])
    for c in sub.nontrivial:
        ctx.nontrivial.add(c)
    ctx.samples.extend(sub.samples[:1])


def replay(case: dict) -> list:
    if "model" in case:
        return explore.replay_history(case["model"], case["args"], case["history"])
    return run_case(case)[0]
