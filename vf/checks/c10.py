"""C10 - automatic Kramers-Kronig testing tracks the noise and flags drift (E1 over a declared finite grid; weakest claim)."""
from __future__ import annotations

import itertools
import warnings
from typing import Any, Dict, List, Optional, Sequence, Tuple

from vf.util import exc_signature

ID = "C10"
LEVEL = "exploration"
_ST: Dict[str, Any] = {}

BAND = (0.33, 5.0)      # estimated / injected noise; calibration 0.84 .. 2.55 over 247 cases (DESIGN C10), frozen
DRIFT_FACTOR = 2.0      # chi2(drift counterpart) >= 2 x chi2(valid) at noise <= 0.05 % (calibration minimum 3.2)
LADDERS = {
    "ladder:RC": "R{R=50}(R{R=100}C{C=1e-5})",
    "ladder:RC2": "R{R=50}(R{R=100}C{C=1e-5})(R{R=300}C{C=1e-3})",
    "ladder:RC3": "R{R=5}(R{R=20}C{C=2e-6})(R{R=80}C{C=1e-4})(R{R=40}C{C=5e-3})",
    "ladder:RQ": "R{R=10}(R{R=250}Q{Y=2e-5,n=0.85})",
    "ladder:RQ2": "R{R=10}(R{R=250}Q{Y=2e-5,n=0.85})(R{R=120}Q{Y=3e-3,n=0.7})",
    "ladder:RQRC": "R{R=30}(R{R=100}Q{Y=1e-5,n=0.9})(R{R=60}C{C=2e-3})",
}
CHEAP = ["CIRCUIT_1", "CIRCUIT_2", "CIRCUIT_3", "CIRCUIT_4", "CIRCUIT_5", "CIRCUIT_6", "CIRCUIT_7", "CIRCUIT_8"]


def setup():
    if _ST:
        return _ST
    warnings.simplefilter("ignore")
    import numpy as np

    np.seterr(all="ignore")
    import pyimpspec
    from pyimpspec import generate_mock_data, perform_exploratory_kramers_kronig_tests, perform_kramers_kronig_test
    from pyimpspec.mock_data import _definitions
    from vf import schedule

    schedule.install()
    ids = [d.get_identifier() for d in _definitions]
    valid = [i for i in ids if not i.endswith("INVALID")]
    with_drift = [i for i in valid if i + "_INVALID" in ids]
    _ST.update(np=np, gen=generate_mock_data, ekk=perform_exploratory_kramers_kronig_tests, kk=perform_kramers_kronig_test, valid=valid, with_drift=with_drift)
    return _ST


def run_case(case: dict, st=None) -> Tuple[List[dict], Dict[str, Any]]:
    st = st or setup()
    np = st["np"]
    viols: List[dict] = []
    info: Dict[str, Any] = {}

    def viol(kind, what, detail=""):
        if case.get("pre_noise"):
            kind += "|after-testing-the-same-circuit-at-another-noise-level"
        if case.get("order"):
            kind += f"|points-listed-{case['order']}"
        viols.append({"key": f"auto-kk|{kind}", "what": what, "case": case, "detail": detail})

    ident = LADDERS.get(case["spectrum"], case["spectrum"])
    try:
        if case.get("pre_noise"):
            # the same spectrum (same label, same frequencies) at another noise level is tested first in this process: the estimate that
            # follows must be the estimate for the spectrum actually passed in
            try:
                dp = st["gen"](ident, noise=case["pre_noise"], seed=case["seed"])[0]
                st["ekk"](dp, num_procs=1)
                st["kk"](dp, num_procs=1)
                if case["part"] == "drift":
                    st["kk"](st["gen"](case["spectrum"] + "_INVALID", noise=case["pre_noise"], seed=case["seed"])[0], num_procs=1)
            except Exception:
                pass
        d = st["gen"](ident, noise=case["noise"], seed=case["seed"])[0]
        if case.get("order"):
            # the same noisy points listed in another order (low-frequency half first / ascending): the spectrum is the same
            from pyimpspec import DataSet

            f_, Z_ = d.get_frequencies(), d.get_impedances()
            n_ = len(f_)
            idx = {"two-part": list(range(n_ // 2, n_)) + list(range(0, n_ // 2)), "asc": list(range(n_ - 1, -1, -1))}[case["order"]]
            d = DataSet(f_[idx], Z_[idx], label=d.get_label(), path=d.get_path())
        if case["part"] == "noise":
            tests, (r, scores, lo, hi) = st["ekk"](d, num_procs=1)
            est = float(r.get_estimated_percent_noise())
            ratio = est / case["noise"]
            info["ratio"] = ratio
            if not (BAND[0] <= ratio <= BAND[1]):
                viol(f"noise-estimate-outside-band|{'over-fit' if ratio < BAND[0] else 'misfit'}", f"{case['spectrum']}: injected noise {case['noise']} %, estimated {est:.4g} % (ratio {ratio:.3g}, frozen band {BAND})",
                     f"seed={case['seed']} num_RC={r.get_num_RC()} log_F_ext={r.get_log_F_ext():.3g} admittance={r.admittance}")
            if not (lo <= r.get_num_RC() <= hi):
                viol("suggested-num_RC-outside-its-limits", f"{case['spectrum']}: suggested num_RC = {r.get_num_RC()} lies outside the reported limits [{lo}, {hi}]", f"noise={case['noise']} seed={case['seed']}")
            # the convenience wrapper must agree with the exploratory entry point
            r2 = st["kk"](d, num_procs=1)
            if (r2.get_num_RC(), round(r2.get_log_F_ext(), 9), r2.admittance) != (r.get_num_RC(), round(r.get_log_F_ext(), 9), r.admittance):
                viol("wrapper-differs-from-exploratory", f"{case['spectrum']}: perform_kramers_kronig_test picked (num_RC, log_F_ext, Y) = {(r2.get_num_RC(), r2.get_log_F_ext(), r2.admittance)}, the exploratory entry point suggests {(r.get_num_RC(), r.get_log_F_ext(), r.admittance)}")
        else:
            r = st["kk"](d, num_procs=1)
            dd = st["gen"](case["spectrum"] + "_INVALID", noise=case["noise"], seed=case["seed"])[0]
            rd = st["kk"](dd, num_procs=1)
            fac = rd.pseudo_chisqr / r.pseudo_chisqr
            info["drift_factor"] = fac
            if not fac >= DRIFT_FACTOR:
                viol("drift-not-flagged", f"{case['spectrum']}: pseudo chi-squared of the drift-corrupted counterpart is only {fac:.3g} x that of the valid spectrum (noise {case['noise']} %, required >= {DRIFT_FACTOR})",
                     f"seed={case['seed']} chi2_valid={r.pseudo_chisqr:.3g} chi2_drift={rd.pseudo_chisqr:.3g}")
    except Exception as e:
        viol(f"raises:{type(e).__name__}@{exc_signature(e).split('@')[-1]}", f"automatic test raised {type(e).__name__}: {str(e)[:100]} on {case['spectrum']} (noise {case['noise']}, seed {case['seed']})")
    return viols, info


def _chunk(cases) -> dict:
    st = setup()
    viols: Dict[str, dict] = {}
    nontrivial = []
    outcomes: Dict[str, int] = {}
    n = 0
    lo, hi, dmin = 1e9, 0.0, 1e9
    for case in cases:
        v, info = run_case(case, st)
        n += 1
        o = f"{case['part']}:" + ("violation" if v else "ok")
        outcomes[o] = outcomes.get(o, 0) + 1
        nontrivial.append(hash(repr(sorted(case.items()))))
        if "ratio" in info:
            lo, hi = min(lo, info["ratio"]), max(hi, info["ratio"])
            r_ = info["ratio"]
            b = "<0.33" if r_ < 0.33 else "0.33-0.67" if r_ < 0.67 else "0.67-1.5" if r_ < 1.5 else "1.5-3" if r_ < 3 else "3-5" if r_ <= 5 else ">5"
            outcomes[f"estimated/injected noise in {b}"] = outcomes.get(f"estimated/injected noise in {b}", 0) + 1
        if "drift_factor" in info:
            dmin = min(dmin, info["drift_factor"])
            d_ = info["drift_factor"]
            b = "<2" if d_ < 2 else "2-5" if d_ < 5 else "5-50" if d_ < 50 else ">=50"
            outcomes[f"chi2(drift)/chi2(valid) in {b}"] = outcomes.get(f"chi2(drift)/chi2(valid) in {b}", 0) + 1
        for x in v:
            old = viols.get(x["key"])
            if old is None:
                x["count"] = 1
                viols[x["key"]] = x
            else:
                old["count"] += 1
    return {"n": n, "nontrivial": nontrivial, "outcomes": outcomes, "violations": list(viols.values()), "samples": cases[:1],
            "extremes": (lo, hi, dmin)}


def cases(thorough: bool, st) -> List[dict]:
    out: List[dict] = []
    spectra = (st["valid"] + list(LADDERS)) if thorough else (CHEAP + ["ladder:RC2", "ladder:RQ2"])
    seeds = range(6) if thorough else range(2)
    for sp, noise, seed in itertools.product(spectra, (0.02, 0.05, 0.2, 1.0) if thorough else (0.05, 0.2, 1.0), seeds):
        out.append({"part": "noise", "spectrum": sp, "noise": noise, "seed": seed})
    drift = st["with_drift"] if thorough else [s for s in CHEAP if s in st["with_drift"]]
    for sp, noise, seed in itertools.product(drift, (0.02, 0.05), seeds):
        out.append({"part": "drift", "spectrum": sp, "noise": noise, "seed": seed})
    for sp in (spectra if thorough else spectra[:3]):
        for order in ("two-part", "asc"):
            for seed in (seeds if thorough else (0,)):
                out.append({"part": "noise", "spectrum": sp, "noise": 0.05, "seed": seed, "order": order})
    # call sequences within one process
    for sp in (spectra if thorough else spectra[:4] + ["ladder:RC2"]):
        for a, b in ((0.05, 1.0), (1.0, 0.05)):
            for seed in (seeds if thorough else (0,)):
                out.append({"part": "noise", "spectrum": sp, "noise": a, "seed": seed, "pre_noise": b})
    for sp in (drift if thorough else drift[:3]):
        for seed in (seeds if thorough else (0,)):
            out.append({"part": "drift", "spectrum": sp, "noise": 0.02, "seed": seed, "pre_noise": 1.0})
    return out


def run(ctx) -> None:
    thorough = ctx.tier == "thorough"
    st = setup()
    ctx.rule = ("every bundled valid mock circuit (8 cheapest in quick, all 19 in thorough) and RC/RQ ladders (2 / 6) x injected noise {0.05, 0.2, 1} % (and 0.02 % thorough) x "
                "seeds 0..K-1 (K = 2 quick, 6 thorough): estimated/injected noise of the default automatic test inside the frozen band [0.33, 5], "
                "suggested num_RC inside the limits returned with it, and perform_kramers_kronig_test agreeing with the exploratory entry point; "
                "for every circuit with a drift-corrupted counterpart x noise {0.02, 0.05} % x seeds: pseudo chi-squared of the counterpart >= 2 x "
                "that of the valid spectrum; the noise clause also with the points listed ascending / low-frequency half first; and the same judged after the same circuit was tested at another noise level (1 % <-> 0.05 %) in the same "
                "process. The claim is exhaustive over this finite grid only.")
    ctx.exhaustive = True
    ctx.assumptions = ["statistical property: decided only for the enumerated (circuit, noise, seed) grid with a wide frozen band; mis-calibrations below ~2x are not detectable",
                       "the band was calibrated once on the unchanged tree (0.84 .. 2.55 over 247 cases) and frozen"]
    cs = cases(thorough, st)
    ctx.pmap(_chunk, [[c] for c in cs], label="automatic tests")
    ctx.extra["runs"] = len(cs)


def replay(case: dict) -> list:
    return run_case(case)[0]
