"""C19 - the command-line interface reports what the API computes (E1: commands x inputs x formats x filters, in-process)."""
from __future__ import annotations

import contextlib
import io
import itertools
import json
import os
import shutil
import sys
import tempfile
import warnings
from typing import Any, Dict, List, Optional, Sequence, Tuple

from vf import gen_files as F
from vf.util import exc_signature, norm_msg

ID = "C19"
LEVEL = "exploration"
_ST: Dict[str, Any] = {}

MOCK_SPECS = [
    ("CIRCUIT_1", {}),
    ("CIRCUIT_1", {"noise": 0.5, "seed": 3}),
    ("CIRCUIT_2", {"noise": 0.05, "seed": 11, "num_per_decade": 3}),
    ("CIRCUIT_5", {"num_per_decade": 4, "log_min_f": -1.0, "log_max_f": 3.0}),
    ("CIRCUIT_3", {"log_max_f": 4.5, "noise": 1.5, "seed": 2, "log_min_f": 0.5, "num_per_decade": 2}),
    ("R{R=25}(R{R=100}C{C=1e-5})", {"noise": 0.25, "seed": 5, "num_per_decade": 3}),
]
FILTERS = [{}, {"lpf": 500.0}, {"hpf": 2.0}, {"lpf": 500.0, "hpf": 2.0}, {"ei": [0, 4]}, {"lpf": 900.0, "hpf": 0.5, "ei": [3, 5, 6]}]
SIM_CDCS = ["R{R=50}(R{R=100}C{C=1e-5})", "R(RC)(RQ)", "RL(RW)", "Tlm", "(R[RC])", "R{R=10}(R{R=20}C{C=1e-3})(R{R=5}Q{Y=1e-2,n=0.7})"]
FIT_CASES = [("R{R=80}(R{R=150}C{C=2e-6})", "R{R=100}(R{R=200}C{C=1e-6})"),
             ("R{R=120}(R{R=150}Q{Y=2e-5,n=0.8})(R{R=400}C{C=5e-4})", "R{R=100}(R{R=200}Q{Y=1e-5,n=0.85})(R{R=300}C{C=1e-3})")]


def setup():
    if _ST:
        return _ST
    warnings.simplefilter("ignore")
    import matplotlib

    matplotlib.use("Agg")
    import numpy as np

    np.seterr(all="ignore")
    import pyimpspec
    import pyimpspec.cli as cli
    from vf import schedule

    schedule.install()
    _ST.update(np=np, cli=cli, tmp=tempfile.mkdtemp(prefix="vf_c19_"))
    return _ST


def run_cli(argv: List[str], st) -> Tuple[str, Optional[BaseException]]:
    buf, err = io.StringIO(), io.StringIO()
    old = sys.argv
    sys.argv = ["pyimpspec"] + argv
    exc = None
    try:
        with contextlib.redirect_stdout(buf), contextlib.redirect_stderr(err):
            st["cli"].main()
    except SystemExit as e:
        if e.code not in (0, None):
            exc = e
    except BaseException as e:  # noqa
        exc = e
    finally:
        sys.argv = old
        try:
            import matplotlib.pyplot as plt

            plt.close("all")
        except Exception:
            pass
    return buf.getvalue(), exc


def spec_string(ident: str, kw: dict, order: Optional[Sequence[str]] = None) -> str:
    keys = list(order) if order is not None else list(kw)
    if not keys:
        return f"<{ident}>"
    return f"<{ident}:" + ",".join(f"{k}={kw[k]!r}" for k in keys) + ">"


def write_input_file(kind: str, st) -> Tuple[str, List[List[Tuple[float, complex]]]]:
    os.makedirs(st["tmp"], exist_ok=True)
    if kind == "csv":
        sweeps = [F.spectrum(9, 4)]
        txt = F.table(sweeps, polar=False, f_alias="f", a_alias="re", b_alias="im", case="title", neg_a="", neg_b="-", unit="paren", order="f-first", sep=",", decimal=".")
        name, enc = "input.csv", "utf-8"
    elif kind == "mpt2":
        sweeps = [F.spectrum(7, 1), F.spectrum(7, 2)]
        name, txt, enc, _ = F.mpt(sweeps)
        name = "two_sweeps.mpt"
    else:
        sw = F.spectrum(8, 6)
        name, txt, enc, _ = F.dta(sw, True)
        sweeps = [[(f, z * 1.5) for f, z in sw], sw]
        name = "drift.dta"
    path = os.path.join(st["tmp"], f"{os.getpid()}_{name}")
    with open(path, "w", encoding=enc, newline="") as fp:
        fp.write(txt)
    return path, sweeps


def api_data(case: dict, st):
    """The data sets the command is given, obtained through the API with the same settings."""
    from pyimpspec import generate_mock_data, parse_data

    if case["input"]["kind"] == "mock":
        return generate_mock_data(case["input"]["ident"], **case["input"]["kw"]), None
    path, _ = write_input_file(case["input"]["file"], st)
    return parse_data(path), path


def apply_api_filters(d, flt: dict):
    if flt.get("lpf"):
        d.low_pass(flt["lpf"])
    if flt.get("hpf"):
        d.high_pass(flt["hpf"])
    if flt.get("ei"):
        d.set_mask({i: True for i in flt["ei"]})


def filter_argv(flt: dict) -> List[str]:
    a: List[str] = []
    if flt.get("lpf"):
        a += ["-lpf", repr(flt["lpf"])]
    if flt.get("hpf"):
        a += ["-hpf", repr(flt["hpf"])]
    if flt.get("ei"):
        a += ["-ei"] + [str(i) for i in flt["ei"]]
    return a


def parse_tables(text: str, fmt: str, np) -> List[Any]:
    """Numeric tables printed by the CLI -> list of 2-D float arrays (non-numeric cells become NaN)."""
    import csv as _csv

    def num(x):
        try:
            return float(x)
        except Exception:
            return float("nan")

    tables = []
    if fmt == "csv":
        block: List[List[str]] = []
        for line in text.splitlines() + [""]:
            if "," in line:
                block.append(next(_csv.reader([line])))
            else:
                if len(block) > 1:
                    tables.append((block[0], [[c for c in r] for r in block[1:]]))
                block = []
    elif fmt == "json":
        for line in text.splitlines():
            line = line.strip()
            if line.startswith("{"):
                d = json.loads(line)
                cols = list(d)
                idx = sorted(d[cols[0]], key=lambda k: int(k))
                tables.append((cols, [[d[c][i] for c in cols] for i in idx]))
    else:  # markdown
        block = []
        for line in text.splitlines() + [""]:
            if line.strip().startswith("|"):
                block.append([c.strip() for c in line.strip().strip("|").split("|")])
            else:
                if len(block) > 2:
                    tables.append((block[0], block[2:]))
                block = []
    return tables


def cells_equal(got, exp, fmt: str, digits: int = 6) -> bool:
    if got is None and isinstance(exp, float) and exp != exp:
        return True   # JSON null for NaN
    try:
        g = float(got)
        e = float(exp)
    except (TypeError, ValueError):
        return str(got).strip() == str(exp).strip() or (str(got).strip() in ("", "nan") and str(exp).strip() in ("", "nan", "None"))
    if g != g and e != e:
        return True
    if fmt == "md":
        return abs(g - e) <= 10.0 ** (1 - digits) * max(abs(e), 1e-300) * 5 or g == e
    if fmt == "json":
        # DataFrame.to_json prints 10 decimal places: the printed number must be the API value rounded to that precision
        return abs(g - e) <= 0.5e-10 * (1 + 1e-6) + 1e-12 * abs(e) or g == e
    return g == e


def compare_frame(table, df, fmt: str, what: str) -> Optional[str]:
    cols, rows = table
    exp_rows = [list(r) for r in df.itertuples(index=False)]
    if len(rows) != len(exp_rows):
        return f"{what}: {len(rows)} rows printed, the API frame has {len(exp_rows)}"
    if len(cols) != len(df.columns):
        return f"{what}: {len(cols)} columns printed, the API frame has {len(df.columns)}"
    for i, (r, e) in enumerate(zip(rows, exp_rows)):
        for j, (a, b) in enumerate(zip(r, e)):
            if not cells_equal(a, b, fmt):
                return f"{what}: row {i} column '{df.columns[j]}' printed {a!r}, API gives {b!r}"
    return None


def run_case(case: dict, st=None) -> Tuple[List[dict], str]:
    st = st or setup()
    np = st["np"]
    viols: List[dict] = []
    cmd = case["cmd"]

    def viol(kind, what, detail=""):
        viols.append({"key": f"cli|{cmd}|{kind}", "what": what, "case": case, "detail": detail[:1500]})

    if cmd == "identity":
        from pyimpspec.cli.utility import _parse_identity

        s = case["spec"]
        try:
            ident, kw = _parse_identity(s)
        except Exception as e:
            if case.get("malformed"):
                return [], "refused"
            viol(f"raises:{type(e).__name__}", f"_parse_identity({s!r}) raised {type(e).__name__}: {str(e)[:80]}")
            return viols, "violation"
        if case.get("malformed"):
            return [], "accepted-malformed"   # tolerated: the property only speaks about well-formed specifiers
        if ident != case["ident"] or kw != case["kw"] or any(type(kw[k]) is not type(case["kw"][k]) for k in kw):
            viol("specifier-parsed-differently", f"'<{s}>' is read as ({ident!r}, {kw!r}), expected ({case['ident']!r}, {case['kw']!r})")
        return viols, "ok"

    if cmd == "parse":
        fmt = case["fmt"]
        dsets, path = api_data(case, st)
        inp = spec_string(case["input"]["ident"], case["input"]["kw"]) if path is None else path
        outdir = None
        argv = ["parse", inp, "--output-format", fmt, "--suppress-progress"] + filter_argv(case["filters"])
        if case.get("average"):
            argv.append("--average")
        if case.get("to_file"):
            outdir = os.path.join(st["tmp"], f"out_{os.getpid()}")
            shutil.rmtree(outdir, ignore_errors=True)
            argv += ["--output-to", "--output-dir", outdir]
        if case.get("nds") is not None:
            argv += ["--nth-data-set"] + [str(i) for i in case["nds"]]
        out, exc = run_cli(argv, st)
        # expected through the API
        from pyimpspec import DataSet

        exp_sets = list(dsets)
        if case.get("nds") is not None:   # zero-based indices of the data sets of the file to include, all others ignored
            exp_sets = [d for i, d in enumerate(exp_sets) if i in case["nds"]]
        try:
            if case.get("average"):
                exp_sets = [DataSet.average(exp_sets)]
            for d in exp_sets:
                apply_api_filters(d, case["filters"])
            exp_frames = [d.to_dataframe() for d in exp_sets]
            api_exc = None
        except Exception as e:
            api_exc = e
        if exc is not None or api_exc is not None:
            if (exc is None) != (api_exc is None):
                viol("cli-and-api-disagree-on-failure", f"`{' '.join(argv)}`: CLI -> {type(exc).__name__ if exc else 'output'}, API pipeline -> {type(api_exc).__name__ if api_exc else 'data'}",
                     f"cli={exc!r} api={api_exc!r}")
            return viols, "both-refuse" if not viols else "violation"
        if outdir:
            texts = []
            for fn in sorted(os.listdir(outdir)):
                with open(os.path.join(outdir, fn)) as fp:
                    texts.append(fp.read())
            shutil.rmtree(outdir, ignore_errors=True)
            out = "\n\n".join(texts)
        tables = parse_tables(out, fmt, np)
        if len(tables) != len(exp_frames):
            viol("number-of-tables", f"`{' '.join(argv)}` printed {len(tables)} tables for {len(exp_frames)} data sets", out[:600])
            return viols, "violation"
        # files in the output directory are sorted by name; match tables to frames by the first frequency column content
        used = set()
        for t in tables:
            hit = None
            for k, df in enumerate(exp_frames):
                if k in used:
                    continue
                if compare_frame(t, df, fmt, "spectrum") is None:
                    hit = k
                    break
            if hit is None:
                msg = compare_frame(t, exp_frames[min(set(range(len(exp_frames))) - used)], fmt, "spectrum")
                viol("printed-spectrum-differs-from-api", f"`{' '.join(argv)}`: {msg}", out[:600])
                return viols, "violation"
            used.add(hit)
        return viols, "ok"

    if cmd == "simulate":
        from pyimpspec import mpl, parse_cdc, simulate_spectrum
        from pyimpspec.analysis.utility import _interpolate

        captured = []
        names = ["plot_nyquist", "plot_bode", "plot_imaginary", "plot_magnitude", "plot_phase", "plot_real", "plot_real_imaginary"]
        orig = {n: getattr(mpl, n) for n in names}

        def spy(fn):
            def wrapper(data, *a, **k):
                captured.append(data)
                return fn(data, *a, **k)
            return wrapper

        for n in names:
            setattr(mpl, n, spy(orig[n]))
        try:
            argv = ["circuit", case["cdc"], "--simulate", "--min-frequency", repr(case["fmin"]), "--max-frequency", repr(case["fmax"]),
                    "--num-per-decade", str(case["npd"]), "--plot-type", case.get("plot", "nyquist"), "--suppress-progress"]
            out, exc = run_cli(argv, st)
        finally:
            for n in names:
                setattr(mpl, n, orig[n])
        if exc is not None:
            viol(f"raises:{type(exc).__name__}", f"`{' '.join(argv)}` raised {type(exc).__name__}: {str(exc)[:80]}")
            return viols, "violation"
        c = parse_cdc(case["cdc"])
        exp = simulate_spectrum(c, _interpolate([case["fmax"], case["fmin"]], case["npd"]))
        if not captured:
            viol("nothing-plotted", f"`{' '.join(argv)}` did not plot a spectrum")
            return viols, "violation"
        got = captured[0]
        if len(got.get_frequencies()) != len(exp.get_frequencies()) or not np.array_equal(got.get_frequencies(), exp.get_frequencies()):
            viol("simulated-frequencies-differ-from-api", f"`{' '.join(argv)}`: {len(got.get_frequencies())} simulated frequencies, simulate_spectrum with the same settings has {len(exp.get_frequencies())}")
        elif not np.array_equal(got.get_impedances(), exp.get_impedances()):
            viol("simulated-impedances-differ-from-api", f"`{' '.join(argv)}`: simulated impedances differ from simulate_spectrum(parse_cdc(cdc), ...)")
        return viols, "ok" if not viols else "violation"

    if cmd in ("fit", "drt"):
        from pyimpspec import calculate_drt, fit_circuit, parse_cdc, simulate_spectrum

        fmt = case["fmt"]
        truth = parse_cdc(case["truth"])
        f = np.logspace(4, -1, 26)
        rs = np.random.RandomState(case.get("seed", 1))
        Z = truth.get_impedances(f)
        Z = Z * (1 + 1e-3 * rs.normal(size=len(f)) + 1e-3j * rs.normal(size=len(f)))
        os.makedirs(st["tmp"], exist_ok=True)
        path = os.path.join(st["tmp"], f"{os.getpid()}_{cmd}_input.csv")
        with open(path, "w") as fp:
            fp.write("f,re,im\n" + "\n".join(f"{a!r},{z.real!r},{z.imag!r}" for a, z in zip(f.tolist(), Z.tolist())) + "\n")
        from pyimpspec import parse_data

        data = parse_data(path)[0]
        apply_api_filters(data, case["filters"])
        if cmd == "fit":
            argv = ["fit", case["start"], path, "--method", case["method"], "--weight", case["weight"], "--max-nfev", "200", "--num-procs", "1",
                    "--num-refinements", str(case["refine"]), "--output-format", fmt, "--suppress-progress"] + filter_argv(case["filters"])
            if case.get("running"):
                argv.append("--running-count")
            out, exc = run_cli(argv, st)
            try:
                r = fit_circuit(parse_cdc(case["start"]), data, method=case["method"], weight=case["weight"], max_nfev=200, num_procs=1)
                for _ in range(case["refine"]):
                    r = fit_circuit(r.circuit, data, method=case["method"], weight=case["weight"], max_nfev=200, num_procs=1)
                frames = [("fitted parameters", r.to_parameters_dataframe(running=bool(case.get("running")))), ("statistics", r.to_statistics_dataframe())]
                api_exc = None
            except Exception as e:
                api_exc = e
        else:
            kw = dict(case["kw"])
            argv = ["drt", path, "--method", case["method"], "--num-procs", "1", "--threshold", "0.1", "--output-format", fmt, "--suppress-progress"] + filter_argv(case["filters"])
            if "mode" in kw:
                argv += ["--mode", kw["mode"]]
            if "lambda_value" in kw:
                argv += ["--lambda-value", repr(kw["lambda_value"])]
            if "model_order_method" in kw:
                argv += ["--model-order-method", kw["model_order_method"]]
            out, exc = run_cli(argv, st)
            try:
                r = calculate_drt(data, method=case["method"], num_procs=1, **kw)
                frames = [("statistics", r.to_statistics_dataframe()), ("peaks", r.to_peaks_dataframe(threshold=0.1))]
                api_exc = None
            except Exception as e:
                api_exc = e
        if exc is not None or api_exc is not None:
            if (exc is None) != (api_exc is None):
                viol("cli-and-api-disagree-on-failure", f"`{' '.join(argv)}`: CLI -> {type(exc).__name__ if exc else 'output'}, API -> {type(api_exc).__name__ if api_exc else 'result'}",
                     f"cli={exc!r} api={api_exc!r}")
            return viols, "both-refuse" if not viols else "violation"
        tables = parse_tables(out, fmt, np)
        if len(tables) < len(frames):
            viol("number-of-tables", f"`{' '.join(argv[:6])} ...` printed {len(tables)} tables, expected {len(frames)}", out[:800])
            return viols, "violation"
        for (name, df), t in zip(frames, tables):
            msg = compare_frame(t, df, fmt, name)
            if msg:
                viol(f"printed-{name.replace(' ', '-')}-differ-from-api", f"`pyimpspec {cmd}` ({case['method']}{'/' + case['weight'] if cmd == 'fit' else ''}, format {fmt}): {msg}", out[:800])
                break
        return viols, "ok" if not viols else "violation"
    raise ValueError(cmd)


def _chunk(cases) -> dict:
    st = setup()
    viols: Dict[str, dict] = {}
    nontrivial = []
    outcomes: Dict[str, int] = {}
    n = 0
    for case in cases:
        try:
            v, o = run_case(case, st)
        except Exception as e:
            import traceback

            raise RuntimeError(f"harness failure on {case}: {traceback.format_exc()[-800:]}")
        n += 1
        outcomes[f"{case['cmd']}:{o}"] = outcomes.get(f"{case['cmd']}:{o}", 0) + 1
        nontrivial.append(hash(json.dumps(case, sort_keys=True, default=repr)))
        for x in v:
            old = viols.get(x["key"])
            if old is None:
                x["count"] = 1
                viols[x["key"]] = x
            else:
                old["count"] += 1
    return {"n": n, "nontrivial": nontrivial, "outcomes": outcomes, "violations": list(viols.values()), "samples": cases[:1]}


def cases(thorough: bool) -> List[dict]:
    out: List[dict] = []
    inputs = [{"kind": "mock", "ident": i, "kw": kw} for i, kw in MOCK_SPECS] + [{"kind": "file", "file": k} for k in ("csv", "mpt2", "dta")]
    for inp, fmt, flt in itertools.product(inputs, ("csv", "json", "md"), FILTERS):
        out.append({"cmd": "parse", "input": inp, "fmt": fmt, "filters": flt})
    for inp, fmt in itertools.product(inputs[:2] + inputs[-3:], ("csv", "json")):
        out.append({"cmd": "parse", "input": inp, "fmt": fmt, "filters": {"hpf": 1.0}, "to_file": True})
    for fmt, flt in itertools.product(("csv", "md"), (FILTERS[0], FILTERS[3])):
        out.append({"cmd": "parse", "input": {"kind": "file", "file": "mpt2"}, "fmt": fmt, "filters": flt, "average": True})
    for fmt, nds in itertools.product(("csv", "json"), ([0], [1], [0, 1], [1, 0])):   # selection of spectra of a file with several
        out.append({"cmd": "parse", "input": {"kind": "file", "file": "mpt2"}, "fmt": fmt, "filters": {}, "nds": nds})
    for cdc, (fmin, fmax), npd, plot in itertools.product(SIM_CDCS, ((0.1, 1e4), (2.5, 3.3e5)), (1, 7) if not thorough else (1, 3, 7, 10), ("nyquist", "bode")):
        out.append({"cmd": "simulate", "cdc": cdc, "fmin": fmin, "fmax": fmax, "npd": npd, "plot": plot})
    for (start, truth), (m, w), refine, running, fmt in itertools.product(FIT_CASES, (("leastsq", "boukamp"), ("powell", "modulus")) if not thorough else
                                                                      (("leastsq", "boukamp"), ("powell", "modulus"), ("least_squares", "proportional"), ("lbfgsb", "unity")),
                                                                      (0, 1), (False, True), ("csv", "json", "md")):
        out.append({"cmd": "fit", "start": start, "truth": truth, "method": m, "weight": w, "refine": refine, "running": running, "fmt": fmt,
                    "filters": {} if refine == 0 else {"lpf": 5e3, "ei": [1]}})
    for kw, method in (({"mode": "real", "lambda_value": 1e-3}, "tr-nnls"), ({"mode": "imaginary", "lambda_value": -1.0}, "tr-nnls"), ({"model_order_method": "matrix_rank"}, "lm")):
        for fmt, flt in itertools.product(("csv", "json", "md"), ({}, {"hpf": 0.5})):
            out.append({"cmd": "drt", "truth": FIT_CASES[1][1], "method": method, "kw": kw, "fmt": fmt, "filters": flt})
    # specifiers: every subset and order of the six keys (thorough: all orders of subsets <= 3; quick: rotations)
    keys = {"noise": 0.25, "seed": 7, "num_per_decade": 3, "log_max_f": 4.5, "log_min_f": -1.5, "drift": 1.5}
    for r in range(0, 7):
        for sub in itertools.combinations(keys, r):
            orders = list(itertools.permutations(sub)) if (thorough and r <= 3) else [sub, tuple(reversed(sub))]
            for order in dict.fromkeys(orders):
                kw = {k: keys[k] for k in order}
                for ident in ("CIRCUIT_1", "R{R=1}(R{R=2}C{C=1e-3})", "Tlm{X_1=[R{R=2:a}],L=2}"):
                    s = ident + (":" + ",".join(f"{k}={kw[k]!r}" for k in order) if order else "")
                    out.append({"cmd": "identity", "spec": s, "ident": ident, "kw": kw})
    # other spellings of the numbers (what str()/repr() print for small floats, exponent notation, explicit sign, no leading zero)
    for key, spellings in (("noise", ["2.5e-1", "2.5E-1", "25e-2", "1e-05", "5e-1", ".25", "+0.25", "0.250"]), ("log_min_f", ["-1.5e0", "-15e-1", "-5e-1"]),
                           ("log_max_f", ["4.5e0", "45E-1", "2.5e0"]), ("drift", ["1.5e0", "15e-1"])):
        for sp in spellings:
            for ident in ("CIRCUIT_1", "R{R=1}(R{R=2}C{C=1e-3})"):
                out.append({"cmd": "identity", "spec": f"{ident}:{key}={sp},seed=3", "ident": ident, "kw": {key: float(sp), "seed": 3}})
    # integer values at the boundaries of the machine ranges
    for sp in ("0", "1", str(2 ** 31), str(2 ** 32 - 1), str(2 ** 32 + 5), str(2 ** 53), str(2 ** 53 + 1), str(2 ** 63 - 1), "1759000000123456789"):
        for ident in ("CIRCUIT_1", "R{R=1}(R{R=2}C{C=1e-3})"):
            out.append({"cmd": "identity", "spec": f"{ident}:noise=0.5,seed={sp}", "ident": ident, "kw": {"noise": 0.5, "seed": int(sp)}})
    for sp in ("1", "2", "100"):
        out.append({"cmd": "identity", "spec": f"CIRCUIT_1:num_per_decade={sp}", "ident": "CIRCUIT_1", "kw": {"num_per_decade": int(sp)}})
    for bad in ("CIRCUIT_1:noise", "CIRCUIT_1:noise=", "CIRCUIT_1:bogus=1", "CIRCUIT_1:seed=1.5", "CIRCUIT_1:noise=abc", "CIRCUIT_1:noise=1,,seed=2"):
        out.append({"cmd": "identity", "spec": bad, "malformed": True})
    return out


def run(ctx) -> None:
    thorough = ctx.tier == "thorough"
    st = setup()
    ctx.rule = ("in-process pyimpspec.cli.main() with patched argv/stdout. parse: 6 mock specifiers (bundled identifiers and a CDC, keyword subsets) and 3 "
                "generated files (csv, two-sweep .mpt, drift-corrected .dta) x {csv, json, md} x 6 filter sets (-lpf, -hpf, both, -ei, combined), output "
                "to files, --average; circuit --simulate: 6 CDCs x 2 frequency ranges x points per decade x plot type (plotted data sets captured by "
                "wrapping the plot functions); fit: 2 circuits x method/weight pairs x num-refinements {0,1} x running-count x 3 formats; drt: tr-nnls "
                "(2 modes / lambda modes) and lm x formats x filters; mock specifiers: every subset of the six keys in two (all, for <= 3 keys in "
                "thorough) orders on three identifiers, 16 alternative spellings of the numeric values (exponent notation, sign, no leading zero), integer values at machine-range boundaries (0, 2^31, 2^32 +- , 2^53 + 1, 2^63 - 1), and malformed specifiers. Oracle: the corresponding API call with the same settings in "
                "the same process (csv exact, json to its 10 printed decimals, md to the printed digits).")
    ctx.exhaustive = True
    ctx.assumptions = ["commands run in-process (three sub-process runs are left to the repository's own CLI tests)", "fit/drt are deterministic for the methods used"]
    cs = cases(thorough)
    heavy = [c for c in cs if c["cmd"] in ("fit", "drt", "simulate")]
    light = [c for c in cs if c["cmd"] not in ("fit", "drt", "simulate")]
    k = 48
    try:
        ctx.pmap(_chunk, [heavy[i::k] for i in range(k) if heavy[i::k]] + [light[i::k] for i in range(k) if light[i::k]], label="commands")
    finally:
        shutil.rmtree(st["tmp"], ignore_errors=True)
    ctx.extra["commands"] = len(cs)


def replay(case: dict) -> list:
    st = dict(setup(), tmp=tempfile.mkdtemp(prefix="vf_c19r_"))   # replays run concurrently: each gets its own scratch directory
    try:
        return run_case(case, st)[0]
    finally:
        shutil.rmtree(st["tmp"], ignore_errors=True)
