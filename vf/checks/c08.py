"""C08 - every analysis result is internally consistent with the data it came from (E1 over entry points x options x masks)."""
from __future__ import annotations

import hashlib
import itertools
import math
import warnings
from typing import Any, Callable, Dict, List, Optional, Sequence, Tuple

from vf.util import exc_signature, norm_msg

ID = "C08"
LEVEL = "exploration"
_ST: Dict[str, Any] = {}

FIT_CDC = "R{R=90}(R{R=180}C{C=1e-6})(R{R=600}W{Y=5e-4})"
MRQ_CDC = "R{R=120}(R{R=210}Q{Y=1.2e-6,n=0.9})(R{R=520}Q{Y=6e-4,n=0.7})"


def setup():
    if _ST:
        return _ST
    warnings.simplefilter("ignore")
    import numpy as np

    np.seterr(all="ignore")
    import pyimpspec
    from pyimpspec import (DataSet, calculate_drt, fit_circuit, generate_mock_data, parse_cdc, perform_exploratory_kramers_kronig_tests,
                           perform_kramers_kronig_test, perform_zhit)
    from pyimpspec.analysis.kramers_kronig import evaluate_log_F_ext
    from vf import schedule

    schedule.install()
    base = generate_mock_data("CIRCUIT_1", noise=0.1, seed=1, num_per_decade=4)[0]
    f = base.get_frequencies(masked=None)
    Z = base.get_impedances(masked=None)
    # a second spectrum whose admittance has a negative real part at a few points (triggers the Z-HIT offset shift)
    c = parse_cdc("R{R=-40}(R{R=100}C{C=1e-5})(R{R=60}C{C=2e-3})")
    Zneg = c.get_impedances(f)
    rs = np.random.RandomState(3)
    Zneg = Zneg * (1 + 2e-3 * rs.normal(size=len(f)) + 2e-3j * rs.normal(size=len(f)))
    _ST.update(np=np, DataSet=DataSet, parse_cdc=parse_cdc, f=f, Z=Z, Zneg=Zneg, kk=perform_kramers_kronig_test, ekk=perform_exploratory_kramers_kronig_tests,
               elf=evaluate_log_F_ext, zhit=perform_zhit, drt=calculate_drt, fit=fit_circuit)
    return _ST


def entries(thorough: bool) -> Dict[str, dict]:
    """name -> {"call": fn(st, data) -> (list of results, input circuit or None), "seed": reseed numpy RNG before the call}"""
    E: Dict[str, dict] = {}

    def kk(test, adm, num_RC, nF):
        def call(st, d):
            return [st["kk"](d, test=test, admittance=adm, num_RC=num_RC, num_F_ext_evaluations=nF, num_procs=1, timeout=600)], None
        return call

    tests = ["real", "complex", "imaginary", "real-inv", "complex-inv", "imaginary-inv"] if thorough else ["real", "complex", "imaginary-inv"]
    for t in tests:
        for adm in (False, True, None):
            E[f"kk:{t}:adm={adm}:num_RC=6:nF=0"] = {"call": kk(t, adm, 6, 0)}
        E[f"kk:{t}:adm=False:num_RC=0:nF=0"] = {"call": kk(t, False, 0, 0)}
    E["kk:real:adm=None:num_RC=0:nF=10"] = {"call": kk("real", None, 0, 10)}
    E["kk:complex:adm=True:num_RC=0:nF=-10"] = {"call": kk("complex", True, 0, -10)}
    E["kk:cnls:adm=False:num_RC=4:nF=0"] = {"call": kk("cnls", False, 4, 0)}
    if thorough:
        E["kk:cnls:adm=True:num_RC=0:nF=0"] = {"call": kk("cnls", True, 0, 0)}
        E["kk:real:adm=None:num_RC=0:nF=20(default)"] = {"call": kk("real", None, 0, 20)}

    def elf(st, d):
        out = st["elf"](d, test="real", num_F_ext_evaluations=10, num_procs=1)
        return [r for _, rs, _ in out for r in rs], None

    E["evaluate_log_F_ext"] = {"call": elf}

    def ekk(st, d):
        results, (best, *_rest) = st["ekk"](d, test="complex", admittance=None, num_F_ext_evaluations=0, num_procs=1)
        return list(results) + [best], None

    E["exploratory"] = {"call": ekk}

    def zhit(adm, smoothing="modsinc", interpolation="makima", window=None):
        def call(st, d):
            kw = dict(smoothing=smoothing, interpolation=interpolation, admittance=adm, num_procs=1)
            if window:
                kw["window"] = window
            return [st["zhit"](d, **kw)], None
        return call

    E["zhit:Z:default"] = {"call": zhit(False)}
    E["zhit:Y:boxcar"] = {"call": zhit(True, window="boxcar")}
    E["zhit:Y:negative-ReY"] = {"call": zhit(True, "lowess", "akima", "hann"), "data": "neg"}
    E["zhit:Z:negative-ReZ"] = {"call": zhit(False, "lowess", "akima", "hann"), "data": "neg"}   # same spectrum: Re Z < 0 at high frequencies
    if thorough:
        E["zhit:Z:auto-options"] = {"call": zhit(False, "auto", "auto", "boxcar")}

    def drt(method, **kw):
        def call(st, d):
            circuit = None
            k = dict(kw)
            if method == "mrq-fit":
                circuit = st["parse_cdc"](MRQ_CDC)
                k["circuit"] = circuit
            return [st["drt"](d, method=method, num_procs=1, **k)], circuit
        return call

    for mode in ("real", "imaginary"):
        for lam in (1e-3, -1.0, -2.0):
            E[f"drt:tr-nnls:{mode}:lambda={lam}"] = {"call": drt("tr-nnls", mode=mode, lambda_value=lam)}
    E["drt:lm:matrix_rank"] = {"call": drt("lm")}
    E["drt:lm:pseudo_chisqr"] = {"call": drt("lm", model_order_method="pseudo_chisqr")}
    E["drt:mrq-fit"] = {"call": drt("mrq-fit")}
    E["drt:bht"] = {"call": drt("bht", num_samples=200, num_attempts=3), "seed": 11}

    def drt_mrq_with_fit(foreign: bool):
        # the documented fit= option: with the fitted circuit itself, and with another object of the same description (refused with
        # ValueError on the unchanged tree - if a result comes back instead, it must be as consistent as any other)
        def call(st, d):
            unfitted = st["parse_cdc"](MRQ_CDC)
            fit = st["fit"](st["parse_cdc"](MRQ_CDC), d, method="least_squares", weight="boukamp", max_nfev=200, num_procs=1)
            try:
                return [st["drt"](d, method="mrq-fit", num_procs=1, circuit=unfitted if foreign else fit.circuit, fit=fit)], (unfitted if foreign else None)
            except ValueError:
                if not foreign:
                    raise
                return [], unfitted
        return call

    E["drt:mrq-fit:fit=own-circuit"] = {"call": drt_mrq_with_fit(False)}
    E["drt:mrq-fit:fit=foreign-circuit"] = {"call": drt_mrq_with_fit(True)}

    def fit(method, weight, max_nfev=200):
        def call(st, d):
            c = st["parse_cdc"](FIT_CDC)
            return [st["fit"](c, d, method=method, weight=weight, max_nfev=max_nfev, num_procs=1)], c
        return call

    methods = ["leastsq", "least_squares", "powell", "nelder", "lbfgsb", "bfgs", "tnc", "slsqp", "cg"] if thorough else ["leastsq", "powell", "lbfgsb"]
    weights = ["boukamp", "modulus", "proportional", "unity"]
    for m in methods:
        for w in (weights if thorough or m == "leastsq" else ["boukamp"]):
            E[f"fit:{m}:{w}"] = {"call": fit(m, w)}
    E["fit:[leastsq,powell]x[boukamp,modulus]"] = {"call": fit(["leastsq", "powell"], ["boukamp", "modulus"])}
    if thorough:
        E["fit:auto:auto"] = {"call": fit("auto", "auto", -1)}
    return E


def digest(results, np) -> str:
    h = hashlib.sha1()
    for r in results:
        for a in ("frequencies", "impedances", "residuals"):
            h.update(np.ascontiguousarray(getattr(r, a)).tobytes())
        h.update(repr(float(r.pseudo_chisqr)).encode())
        c = getattr(r, "circuit", None)
        if c is not None:
            h.update(c.serialize(17).encode())
    return h.hexdigest()[:16]


def snapshot_circuit(c):
    if c is None:
        return None
    return (c.serialize(17), tuple((e.get_label(), tuple(e.get_values().items()), tuple(e.get_lower_limits().items()), tuple(e.get_upper_limits().items()),
                                    tuple(e.are_fixed().items())) for e in c.get_elements()))


def build_data(case: dict, st, removed: bool):
    np = st["np"]
    f = st["f"]
    Z = (st["Zneg"] if case.get("data") == "neg" else st["Z"]).copy()
    n = len(f)
    pos = {"first": 0, "last": n - 1, "i1": 3, "i2": n // 2 + 1}
    masked = sorted(pos[p] for p in case["mask"])
    if removed:
        keep = [i for i in range(n) if i not in masked]
        return st["DataSet"](f[keep].copy(), Z[keep].copy()), masked
    payload = case["payload"]
    for i in masked:
        if payload == "huge":
            Z[i] = 1e12 * (1 + 1j)
        elif payload == "tiny-negative":
            Z[i] = -1e-12
        elif payload == "nan":
            Z[i] = complex(float("nan"), float("nan"))
    if case["order"] == "asc":
        d = st["DataSet"](f[::-1].copy(), Z[::-1].copy(), mask={n - 1 - i: True for i in masked})
    else:
        d = st["DataSet"](f.copy(), Z.copy(), mask={i: True for i in masked})
    return d, masked


def run_case(case: dict, st=None, ref_cache: Optional[dict] = None) -> Tuple[List[dict], str]:
    st = st or setup()
    np = st["np"]
    E = entries(True)[case["entry"]]
    call = E["call"]
    case = dict(case, data=E.get("data"))
    name = case["entry"]
    viols: List[dict] = []

    def viol(kind, what, detail=""):
        viols.append({"key": f"result|{kind}|{name.split(':')[0]}" + ("|" + name if kind.startswith(("pseudo", "residual", "model", "frequenc")) else ""),
                      "what": f"{what} [{name}]", "case": {k: v for k, v in case.items() if k != "data"}, "detail": detail})

    if case.get("pre_mask") is not None:
        # the same analysis run just before, in this process, on the same spectrum with other points masked (same number of unmasked
        # points, same first and last unmasked point): its result is not judged, it must only leave no trace in the run that follows
        dp, _ = build_data(dict(case, mask=case["pre_mask"]), st, removed=False)
        if E.get("seed") is not None:
            np.random.seed(E["seed"])
        try:
            call(st, dp)
        except Exception:
            pass
        name += "|after-the-same-analysis-with-another-mask"
    d, masked = build_data(case, st, removed=False)
    before = d.to_dict()
    if E.get("seed") is not None:
        np.random.seed(E["seed"])
    try:
        results, circuit_in = call(st, d)
        circ_before = None
    except Exception as e:
        from pyimpspec.exceptions import DRTError, FittingError, KramersKronigError, ZHITError

        if isinstance(e, (DRTError, FittingError, KramersKronigError, ZHITError)):
            return [], "refused"
        viol(f"raises:{type(e).__name__}@{exc_signature(e).split('@')[-1]}", f"entry point raised {type(e).__name__}: {str(e)[:100]} (mask {case['mask']}, payload {case['payload']}, {case['order']})")
        return viols, "violation"
    # input data untouched
    after = d.to_dict()
    if repr(after) != repr(before):
        viol("input-data-modified", "the input data set was modified by the analysis")
    Zu = d.get_impedances()
    fu = d.get_frequencies()
    for k, r in enumerate(results):
        if len(r.frequencies) != len(fu) or not np.array_equal(np.asarray(r.frequencies), fu):
            viol("frequencies-are-not-the-unmasked-frequencies", f"result frequencies differ from data.get_frequencies() (mask {case['mask']}, {case['order']})")
            break
        Zm = np.asarray(r.impedances)
        res = np.asarray(r.residuals)
        exp_res = (Zu - Zm) / np.abs(Zu)
        if len(res) != len(exp_res) or not np.allclose(res, exp_res, rtol=1e-9, atol=1e-12 * float(np.max(np.abs(exp_res)) + 1e-300)):
            dv = float(np.max(np.abs(res - exp_res))) if len(res) == len(exp_res) else float("nan")
            viol("residuals-are-not-(Z-Zmodel)/|Z|", f"residuals differ from (Z_data - Z_model)/|Z_data| by up to {dv:.3g}")
            break
        chi = float(np.sum(np.abs(res) ** 2))
        if not (abs(float(r.pseudo_chisqr) - chi) <= 1e-9 * max(chi, 1e-300)):
            viol("pseudo-chisqr-is-not-sum-of-squared-residuals", f"pseudo chi-squared {float(r.pseudo_chisqr):.6g} != sum |residual|^2 = {chi:.6g}")
            break
        c = getattr(r, "circuit", None)
        if c is not None and hasattr(c, "get_impedances"):
            try:
                Zc = c.get_impedances(fu)
                if not np.allclose(Zc, Zm, rtol=1e-9, atol=0):
                    viol("model-impedances-are-not-the-circuits", f"reported model impedances differ from the attached circuit's impedance by up to {float(np.max(np.abs(Zc - Zm) / np.abs(Zm))):.3g}")
                    break
            except Exception:
                pass
    if circuit_in is not None:
        # the input circuit must be untouched: compare with a freshly parsed one
        fresh = st["parse_cdc"](MRQ_CDC if case["entry"].startswith("drt:mrq") else FIT_CDC)
        if snapshot_circuit(circuit_in) != snapshot_circuit(fresh):
            viol("input-circuit-modified", "the circuit passed in was modified by the analysis")
    # masked points never influence the result: compare with the physically reduced data set
    if masked:
        key = (case["entry"], tuple(masked))
        ref = None if ref_cache is None else ref_cache.get(key)
        if ref is None:
            dref, _ = build_data(case, st, removed=True)
            if E.get("seed") is not None:
                np.random.seed(E["seed"])
            try:
                rref, _ = call(st, dref)
                ref = digest(rref, np)
            except Exception as e:
                ref = f"raises:{type(e).__name__}"
            if ref_cache is not None:
                ref_cache[key] = ref
        got = digest(results, np)
        if got != ref:
            viol("masked-points-influence-the-result", f"result with mask {case['mask']} ({case['order']} input, masked payload '{case['payload']}') differs from the result for the data set with those points removed")
    seen, out = set(), []
    for v in viols:
        if v["key"] not in seen:
            seen.add(v["key"])
            out.append(v)
    return out, "ok" if not out else "violation"


def _chunk(arg) -> dict:
    cases = arg
    st = setup()
    viols: Dict[str, dict] = {}
    nontrivial = []
    outcomes: Dict[str, int] = {}
    n = 0
    cache: Dict[Any, str] = {}
    for case in cases:
        v, o = run_case(case, st, cache)
        n += 1
        outcomes[f"{case['entry'].split(':')[0]}:{o}"] = outcomes.get(f"{case['entry'].split(':')[0]}:{o}", 0) + 1
        nontrivial.append(hash(repr(sorted(case.items()))))
        for x in v:
            old = viols.get(x["key"])
            if old is None:
                x["count"] = 1
                viols[x["key"]] = x
            else:
                old["count"] += 1
    return {"n": n, "nontrivial": nontrivial, "outcomes": outcomes, "violations": list(viols.values()), "samples": cases[:1]}


def cases(thorough: bool) -> Dict[str, List[dict]]:
    probes = ["first", "last", "i1", "i2"]
    subsets = [()] + [(p,) for p in probes] + list(itertools.combinations(probes, 2))
    payloads = ["true", "huge", "tiny-negative"] + (["nan"] if thorough else [])
    out: Dict[str, List[dict]] = {}
    for name in entries(thorough):
        heavy = name.startswith(("kk:cnls", "fit:auto", "fit:[", "drt:bht", "drt:mrq", "zhit:Z:auto", "kk:real:adm=None:num_RC=0:nF=20", "kk:real:adm=None:num_RC=0:nF=10",
                                 "kk:complex:adm=True:num_RC=0:nF=-10", "evaluate", "exploratory", "fit:powell", "fit:nelder"))
        cs = []
        for m in (subsets if not heavy or thorough else [(), ("first",), ("i1", "last")]):
            for order in ("desc", "asc"):
                for p in (payloads if m else ["true"]):
                    if heavy and not thorough and p == "tiny-negative":
                        continue
                    cs.append({"entry": name, "mask": list(m), "order": order, "payload": p})
        if not heavy or thorough:
            for a, b in ((("i1",), ("i2",)), (("i2",), ("i1",)), (("i1", "i2"), ("i1",)), ((), ("i2",))):
                cs.append({"entry": name, "mask": list(a), "order": "desc", "payload": "true", "pre_mask": list(b)})
        out[name] = cs
    return out


def run(ctx) -> None:
    thorough = ctx.tier == "thorough"
    setup()
    ctx.rule = ("entry points: perform_kramers_kronig_test (3 / 6 linear tests x {Z, Y, auto} with fixed num_RC, automatic num_RC, "
                "num_F_ext_evaluations in {0, 10, -10}, cnls), evaluate_log_F_ext and perform_exploratory_kramers_kronig_tests (all returned results), "
                "perform_zhit (Z, Y, and a spectrum with negative Re Z / Re Y in both representations; the latter triggers the offset shift), calculate_drt (tr-nnls 2 modes x 3 lambda "
                "modes, lm x 2 order methods, mrq-fit, bht with a fixed RNG seed), fit_circuit (3 / 9 methods x weights, a multi-method call; "
                "thorough: auto/auto) x every mask subset of size <= 2 over 4 probe positions (first, last, two interior) x masked-point payloads "
                "{true value, 1e12(1+j), -1e-12 (, NaN)} x ascending/descending input; plus each (light) entry point run twice in one process with "
                "different masks that leave the same number of points and the same end points (the second run is judged). Oracles: result frequencies = unmasked frequencies, "
                "residuals = (Z - Z_model)/|Z|, pseudo chi-squared = sum |residual|^2, attached circuit reproduces the model impedances, input "
                "data and input circuit untouched, and the result is bit-identical to the result for the data set with the masked points removed.")
    ctx.exhaustive = True
    ctx.assumptions = ["one 25-point noisy mock spectrum (and one with negative Re Y) carry all option combinations",
                       "BHT draws from the global NumPy RNG: both legs of the differential run are preceded by the same numpy.random.seed"]
    by_entry = cases(thorough)
    jobs = []
    for name, cs in by_entry.items():
        # keep all cases of one (entry, mask) in one job so the reference run is shared; split big entries by mask
        groups: Dict[Tuple, List[dict]] = {}
        for c in cs:
            groups.setdefault((tuple(c["mask"]), tuple(c["pre_mask"]) if "pre_mask" in c else None), []).append(c)
        for g in groups.values():
            jobs.append(g)
    ctx.pmap(_chunk, jobs, label="analysis runs")
    ctx.extra["entry_points"] = len(by_entry)
    ctx.extra["runs"] = sum(len(v) for v in by_entry.values())


def replay(case: dict) -> list:
    return run_case(case)[0]
