"""C01 - series/parallel composition laws, independent of construction route and evaluation mode.

E1: every canonical S/P skeleton up to L leaves (plus object-only shapes) x every filling from a leaf palette,
built by three routes (objects, CDC text, CircuitBuilder), evaluated on six frequency vectors and one frequency
at a time, compared with the reference composition (vf/refmodels/impedance.py).
"""
from __future__ import annotations

import itertools
import math
import random
import warnings
from typing import Any, Dict, List, Optional, Sequence, Tuple

from vf import gen_circuits as G
from vf.refmodels.impedance import compose
from vf.util import exc_signature, norm_msg

ID = "C01"
LEVEL = "exploration"

TLM_SUB = {"X_1": (("S", ("L",), ("P", ("L",), ("L",))),
                   [G.entry("R", {"R": 2.5}), G.entry("R", {"R": 40.0}), G.entry("C", {"C": 3e-5})]),
           "X_2": "short", "Z_A": None, "Z_B": None,
           "Zeta": (("L",), [G.entry("Q", {"Y": 5e-3, "n": 0.8})])}

TLM_SUB_CONN = {"X_1": (("S", ("P", ("L",), ("L",)), ("P", ("L",), ("L",))),
                        [G.entry("R", {"R": 2.5}), G.entry("C", {"C": 3e-5}), G.entry("R", {"R": 40.0}), G.entry("Q", {"Y": 2e-4, "n": 0.9})]),
                "X_2": "short", "Z_A": None,
                "Z_B": (("P", ("S", ("L",), ("L",)), ("S", ("L",), ("L",))),
                        [G.entry("R", {"R": 7.0}), G.entry("C", {"C": 1e-4}), G.entry("R", {"R": 90.0}), G.entry("L", {"L": 1e-3})]),
                "Zeta": (("L",), [G.entry("Q", {"Y": 5e-3, "n": 0.8})])}

PALETTE_A = [
    G.entry("R", {"R": 1500.0}, name="R"),
    G.entry("R", {"R": 1234.567890123}, name="R13"),
    G.entry("R", {"R": 0.0}, name="R0"),
    G.entry("R", {"R": 1e-12}, name="Rtiny"),
    G.entry("R", {"R": 1e15}, name="Rhuge"),
    G.entry("R", {"R": 1e200}, name="R1e200"),     # products of two such magnitudes leave the double range, their reciprocals do not
    G.entry("R", {"R": 1e-200}, name="R1e-200"),
    G.entry("R", {"R": math.inf}, name="Rinf", cdc_ok=False),
    G.entry("C", {"C": 2e-6}, name="C"),
    G.entry("L", {"L": 3e-4}, name="L"),
    G.entry("L", {"L": 0.0}, name="L0"),
    G.entry("Q", {"Y": 5e-5, "n": 0.75}, name="Q"),
    G.entry("W", {"Y": 2e-3}, name="W"),
    G.entry("Ws", {"Y": 0.5, "B": 2.0}, name="Ws"),
    G.entry("Tlm", {}, name="Tlm"),
    G.entry("Tlm", {"L": 2.0}, sub=TLM_SUB, name="TlmN"),
    G.entry("Tlm", {"L": 0.5}, sub=TLM_SUB_CONN, name="TlmC"),   # sub-circuits made only of nested connections
    G.entry("Vps", {"R": 7.0}, name="Vps"),   # harness element: 0 below 2 Hz, R above (partial short)
]
NAMES_A = [e["name"] for e in PALETTE_A]
PALETTE_MID = ["R", "R0", "Rtiny", "Rinf", "C", "L", "Q", "TlmN", "TlmC", "Vps"]
PALETTE_SMALL = ["R13", "R0", "Rinf", "C", "Vps"]

import numpy as _np

F7 = [float(x) for x in _np.logspace(9, -6, 7)]
FREQ_VECTORS = {
    "len1": [1.0],
    "len2asc": [1e-6, 1e9],
    "len7desc": F7,
    "len7perm": [F7[i] for i in (3, 0, 6, 2, 5, 1, 4)],
    "len31asc": [float(x) for x in _np.logspace(-6, 9, 31)],
    "len5mid": [0.5, 1.9999, 2.0, 2.0001, 1e3],
}
ALL_F = sorted({f for v in FREQ_VECTORS.values() for f in v})
RTOL = 1e-12

_STATE: Dict[str, Any] = {}


def setup():
    if _STATE:
        return _STATE
    warnings.simplefilter("ignore")
    import numpy as np

    np.seterr(all="ignore")
    import pyimpspec
    from pyimpspec import Element, register_element, ElementDefinition, ParameterDefinition
    from pyimpspec.circuit.registry import get_elements
    from pyimpspec.exceptions import InfiniteImpedance

    if "Vps" not in get_elements(private=True):
        class VerifPartialShort(Element):
            def _impedance(self, f, R):
                return np.where(f > 2.0, R, 0.0) + 0j

        register_element(
            ElementDefinition(
                Class=VerifPartialShort, symbol="Vps", name="verification partial short",
                description="0 below 2 Hz, R above (verification harness only)",
                equation="R*Heaviside(f-2)",
                parameters=[ParameterDefinition(symbol="R", unit="ohm", description="", value=7.0,
                                                lower_limit=0.0, upper_limit=math.inf, fixed=False)],
            ),
            private=True,
        )
    _STATE.update(np=np, InfiniteImpedance=InfiniteImpedance, leaf_cache={})
    return _STATE


def leaf_values(e: dict, st) -> Dict[float, Optional[complex]]:
    """Scalar impedance of the leaf element at every grid frequency (None = open)."""
    key = e["name"]
    c = st["leaf_cache"].get(key)
    if c is None:
        np = st["np"]
        el = G.make_element(e)
        c = {}
        for f in ALL_F:
            try:
                c[f] = complex(el.get_impedances(np.array([f]))[0])
            except st["InfiniteImpedance"]:
                c[f] = None
        st["leaf_cache"][key] = c
    return c


def reference(tree, fills, st) -> Dict[float, Tuple[Optional[complex], float]]:
    lv = [leaf_values(e, st) for e in fills]
    out = {}
    for f in ALL_F:
        out[f] = compose(tree, iter([v[f] for v in lv]))
    return out


def evaluate(circuit, freqs, st):
    """('ok', array) | ('open', None) | ('error', exception)"""
    np = st["np"]
    try:
        return "ok", circuit.get_impedances(np.array(freqs, dtype=float))
    except st["InfiniteImpedance"]:
        return "open", None
    except Exception as e:  # noqa
        return "error", e


def check_case(tree, fills: Sequence[dict], st=None) -> Tuple[List[dict], Dict[str, Any]]:
    """Runs one (skeleton, filling) through all routes / vectors. Returns (violations, info)."""
    st = st or setup()
    viols: List[dict] = []
    names = [e["name"] for e in fills]
    case = {"tree": tree, "fill": names}
    ref = reference(tree, fills, st)
    routes = {"objects": G.circuit_from_objects}
    if all(e["cdc_ok"] for e in fills) and G.cdc_expressible(tree):
        routes["cdc"] = G.circuit_from_cdc
        routes["builder"] = G.circuit_from_builder
    info = {"routes": len(routes), "open": any(z is None for z, _ in ref.values()),
            "short": any(z == 0 for z, _ in ref.values() if z is not None), "evals": 0}

    def add(kind, what, detail=""):
        viols.append({"key": f"compose|{kind}", "what": what, "case": case, "detail": detail})

    for rname, make in routes.items():
        try:
            c = make(tree, fills)
        except Exception as e:
            add(f"route-{rname}-fails|{exc_signature(e)}", f"construction route '{rname}' raised {type(e).__name__}: {str(e)[:100]}")
            continue
        for vname, freqs in FREQ_VECTORS.items():
            modes = [("array", [freqs])]
            if vname in ("len7desc", "len5mid"):
                modes.append(("scalar", [[f] for f in freqs]))
            for mode, batches in modes:
                got: List[Optional[complex]] = []
                status = "ok"
                err = None
                for b in batches:
                    info["evals"] += 1
                    s, Z = evaluate(c, b, st)
                    if s == "ok":
                        if len(Z) != len(b):
                            add(f"shape|{rname}", f"{len(b)} frequencies in, {len(Z)} impedances out")
                            got.extend([None] * len(b))
                        else:
                            got.extend(complex(z) for z in Z)
                    elif s == "open":
                        got.extend(["open"] * len(b))
                    else:
                        status, err = "error", Z
                        got.extend(["error"] * len(b))
                if status == "error":
                    add(f"error|{exc_signature(err)}|{norm_msg(err, 30)}",
                        f"get_impedances raised {type(err).__name__} ({str(err)[:80]}) [route {rname}, {vname}, {mode}]")
                    continue
                exp = [ref[f] for f in freqs]
                any_open = any(z is None for z, _ in exp)
                if mode == "array":
                    # an open circuit at any requested frequency must be refused for the whole array
                    if any_open:
                        if not all(g == "open" for g in got):
                            add("open-not-refused", f"reference says open circuit, API returned values [route {rname}, {vname}]",
                                f"got={got[:4]}")
                        continue
                    if any(g == "open" for g in got):
                        add("finite-but-refused", f"reference impedance is finite, API raised InfiniteImpedance [route {rname}, {vname}, {mode}]",
                            f"expected={[z for z, _ in exp][:4]}")
                        continue
                for f, g, (z, kappa) in zip(freqs, got, exp):
                    if z is None:
                        if g != "open":
                            add("open-not-refused", f"reference says open circuit at f={f}, API returned {g} [route {rname}, {vname}, {mode}]")
                        continue
                    if g == "open":
                        add("finite-but-refused", f"reference impedance {z} is finite at f={f}, API raised InfiniteImpedance [route {rname}, {vname}, {mode}]")
                        continue
                    if g is None:
                        continue
                    tol = RTOL * kappa * abs(z) + 1e-300
                    if not (abs(g - z) <= tol):
                        rel = abs(g - z) / abs(z) if z != 0 else abs(g)
                        kind = "short-law" if z == 0 or g == 0 else "value"
                        add(f"mismatch-{kind}", f"impedance differs from the composition of the parts (rel. {rel:.2e}) [route {rname}, {vname}, {mode}]",
                            f"f={f} got={g} reference={z} kappa={kappa:.3g}")
    # de-duplicate by key keeping the first
    seen, out = set(), []
    for v in viols:
        if v["key"] not in seen:
            seen.add(v["key"])
            out.append(v)
    return out, info


BY_NAME = {e["name"]: e for e in PALETTE_A}


def _chunk(arg) -> dict:
    label, tree, first_names, rest_names, nrest = arg
    st = setup()
    n = 0
    nontrivial = []
    outcomes: Dict[str, int] = {}
    viols: Dict[str, dict] = {}
    sample = None
    evals = 0
    for first in first_names:
        for rest in itertools.product(rest_names, repeat=nrest):
            names = (first,) + rest if first is not None else rest
            fills = [BY_NAME[x] for x in names]
            v, info = check_case(tree, fills, st)
            n += 1
            evals += info["evals"]
            o = ("open" if info["open"] else "finite") + ("+short" if info["short"] else "") + f"/routes={info['routes']}"
            outcomes[o] = outcomes.get(o, 0) + 1
            if info["open"] or info["short"] or G.depth(tree) >= 2 or not G.is_canonical(tree):
                nontrivial.append(hash((tree, names)))
                if sample is None and info["open"] and G.depth(tree) >= 2:
                    sample = {"skeleton": G.tree_str(tree, iter(names)), "reference_open": True, "routes": info["routes"]}
            for x in v:
                old = viols.get(x["key"])
                if old is None:
                    x["count"] = 1
                    viols[x["key"]] = x
                else:
                    old["count"] += 1
    return {"n": n, "nontrivial": nontrivial, "outcomes": outcomes, "violations": list(viols.values()),
            "samples": [sample] if sample else [], "stats": {"get_impedances_calls": evals}}


def _jobs(label: str, trees, names: List[str]):
    jobs = []
    for t in trees:
        nl = G.n_leaves(t)
        if nl == 0:
            jobs.append((label, t, [None], names, 0))
        elif nl <= 2:
            jobs.append((label, t, names, names, nl - 1))
        else:
            for nm in names:
                jobs.append((label, t, [nm], names, nl - 1))
    return jobs


def _all_classes_palette() -> List[dict]:
    setup()
    from pyimpspec.circuit.registry import get_elements

    out = []
    for sym in get_elements(private=True):
        if sym == "Vps":
            continue
        e = G.entry(sym, {}, name="cls:" + sym)
        out.append(e)
    return out


def random_tree(rng: random.Random, n: int, kind: Optional[str] = None):
    if n == 1:
        return ("L",)
    kind = kind or rng.choice("SP")
    k = rng.randint(2, min(n, 4))
    cuts = sorted(rng.sample(range(1, n), k - 1))
    sizes = [b - a for a, b in zip([0] + cuts, cuts + [n])]
    other = "P" if kind == "S" else "S"
    return (kind,) + tuple(random_tree(rng, s, other) for s in sizes)


def _random_chunk(arg) -> dict:
    seed, count, lo, hi = arg
    st = setup()
    rng = random.Random(seed)
    n = 0
    nontrivial = []
    viols: Dict[str, dict] = {}
    outcomes: Dict[str, int] = {}
    sample = None
    for _ in range(count):
        t = random_tree(rng, rng.randint(lo, hi))
        names = tuple(rng.choice(NAMES_A) for _ in range(G.n_leaves(t)))
        v, info = check_case(t, [BY_NAME[x] for x in names], st)
        n += 1
        nontrivial.append(hash((t, names)))
        o = "random:" + ("open" if info["open"] else "finite")
        outcomes[o] = outcomes.get(o, 0) + 1
        if sample is None:
            sample = {"random_skeleton": G.tree_str(t, iter(names))}
        for x in v:
            if x["key"] not in viols:
                x["count"] = 1
                viols[x["key"]] = x
            else:
                viols[x["key"]]["count"] += 1
    return {"n": n, "nontrivial": nontrivial, "outcomes": outcomes, "violations": list(viols.values()),
            "samples": [sample] if sample else []}


# ---------------------------------------------------------------------------------------------------
# E2: operation sequences on live circuits (evaluate / modify in place / evaluate again ...)

from vf import circuit_history as H

DEFAULT_TLM_SUB = {"X_1": (("L",), [G.entry("R", {"R": 1.0})]), "X_2": "short", "Z_A": None, "Z_B": None,
                   "Zeta": (("L",), [G.entry("Q", {"Y": 5e-3, "n": 0.8})])}   # the documented defaults, spelled out

HIST_SUBJECTS = {
    "R(CR)TlmN": {
        "tree": ("S", ("L",), ("P", ("L",), ("L",)), ("L",)),
        "fills": [G.entry("R", {"R": 1500.0}), G.entry("C", {"C": 2e-6}), G.entry("R", {"R": 40.0}), G.entry("Tlm", {"L": 2.0}, sub=TLM_SUB)],
        "muts": [{"leaf": 0, "kind": "values", "alt": {"R": 220.0}},
                 {"leaf": 3, "kind": "nested", "key": "X_1", "idx": 0, "alt": {"R": 9.0}},
                 {"leaf": 3, "kind": "sub", "key": "X_2", "alt": (("L",), [G.entry("R", {"R": 3.0})])},
                 {"leaf": 3, "kind": "values", "alt": {"L": 0.7}}],
    },
    "(TlmC,Q)": {
        "tree": ("P", ("L",), ("L",)),
        "fills": [G.entry("Tlm", {"L": 0.5}, sub=TLM_SUB_CONN), G.entry("Q", {"Y": 5e-5, "n": 0.75})],
        "muts": [{"leaf": 0, "kind": "nested", "key": "Z_B", "idx": 2, "alt": {"R": 45.0}},
                 {"leaf": 0, "kind": "nested", "key": "X_1", "idx": 3, "alt": {"n": 0.7}},
                 {"leaf": 1, "kind": "values", "alt": {"n": 0.6}},
                 {"leaf": 0, "kind": "sub", "key": "Z_A", "alt": (("L",), [G.entry("C", {"C": 1e-3})])}],
    },
    "TlmTlm(defaults)": {
        "tree": ("S", ("L",), ("L",)),
        "fills": [G.entry("Tlm", {}), G.entry("Tlm", {})],
        "explicit": [G.entry("Tlm", {"L": 1.0}, sub=DEFAULT_TLM_SUB), G.entry("Tlm", {"L": 1.0}, sub=DEFAULT_TLM_SUB)],
        "muts": [{"leaf": 0, "kind": "nested", "key": "X_1", "idx": 0, "alt": {"R": 4.0}},
                 {"leaf": 1, "kind": "nested", "key": "Zeta", "idx": 0, "alt": {"n": 0.6}},
                 {"leaf": 0, "kind": "values", "alt": {"L": 2.0}},
                 {"leaf": 1, "kind": "sub", "key": "X_2", "alt": (("L",), [G.entry("R", {"R": 0.5})])}],
    },
}
HIST_OBS = ["len7desc", "len7perm", "len1"]


def _hist_observations(st):
    def mk(vname):
        def f(c):
            s, Z = evaluate(c, FREQ_VECTORS[vname], st)
            if s == "ok":
                return ("ok", tuple(complex(z) for z in Z))
            if s == "open":
                return ("open",)
            return ("error", type(Z).__name__)
        return f
    return {v: mk(v) for v in HIST_OBS}


def _hist_alphabet(subj) -> List[list]:
    return [["obs", v] for v in HIST_OBS] + [["tog", k] for k in range(len(subj["muts"]))]


def _hist_run(name: str, route: str, ops, st, cache={}):
    subj = HIST_SUBJECTS[name]
    obs = _hist_observations(st)
    explicit = subj.get("explicit", subj["fills"])
    if name not in cache:
        cache[name] = H.reference_table(subj["tree"], explicit, subj["muts"], obs)
    return H.run_history(lambda: H.ROUTES[route](subj["tree"], subj["fills"]), subj["fills"], explicit, subj["muts"], obs, cache[name], ops)


def _hist_violation(name: str, route: str, ops, st) -> Optional[dict]:
    bad, _ = _hist_run(name, route, ops, st)
    if bad is None:
        return None
    ops = H.shrink(list(ops)[: bad["step"] + 1], lambda o: _hist_run(name, route, o, st)[0] is not None)
    bad, _ = _hist_run(name, route, ops, st)
    subj = HIST_SUBJECTS[name]
    sig = ">".join(("eval" if o[0] == "obs" else subj["muts"][o[1]]["kind"] if o[0] == "tog" else o[0]) for o in ops)
    return {"key": f"history|{sig}", "what": f"after the operation sequence {ops} the live circuit {name} ({route} route) evaluates differently from a "
            f"circuit built directly with the same current parameters: got {bad['got']}, expected {bad['expected']}",
            "case": {"history": name, "route": route, "ops": [list(o) for o in ops]}, "detail": ""}


def _hist_chunk(arg) -> dict:
    name, route, prefix, depth = arg
    st = setup()
    subj = HIST_SUBJECTS[name]
    alpha = _hist_alphabet(subj)
    n = nobs = 0
    viols: Dict[str, dict] = {}
    outcomes: Dict[str, int] = {}
    nontrivial = []
    for rest in H.all_sequences(alpha, depth - len(prefix)):
        ops = list(prefix) + list(rest)
        n += 1
        bad, k = _hist_run(name, route, ops, st)
        nobs += k
        togs = sum(1 for o in ops if o[0] == "tog")
        o = f"history:{'agree' if bad is None else 'DIFFER'}/{togs} modifications"
        outcomes[o] = outcomes.get(o, 0) + 1
        if togs and ops[-1][0] == "obs":
            nontrivial.append(hash((name, route, repr(ops))))
        if bad is not None:
            v = _hist_violation(name, route, ops, st)
            if v is not None:
                if v["key"] not in viols:
                    v["count"] = 0
                    viols[v["key"]] = v
                viols[v["key"]]["count"] += 1
    return {"n": n, "nontrivial": nontrivial, "outcomes": outcomes, "violations": list(viols.values()), "traces": n, "transitions": n * depth,
            "samples": [{"history_subject": name, "route": route, "operations": ops}] if prefix == [["tog", 0]] else [],
            "stats": {"history_observations": nobs}}


def run(ctx) -> None:
    thorough = ctx.tier == "thorough"
    setup()
    ctx.rule = ("every canonical series/parallel skeleton (alternating S/P, arity >= 2) with <= L leaves and the object-only skeletons "
                "(single-child connections, same-kind nesting, empty series) x every filling from an 18-entry leaf palette (resistors incl. "
                "0, 1e-200, 1e-12, 1e15, 1e200 and +inf ohm, C, L, L=0, Q, W, Ws, three transmission-line containers, a harness element that is a short below "
                "2 Hz), L <= 3 quick; thorough: L <= 4 over 9 entries and L <= 5 over 5 entries; one instance of every registered class at "
                "every leaf for L <= 2 (3); each circuit built from objects, from CDC text and with CircuitBuilder and evaluated on 6 "
                "frequency vectors (lengths 1..31, ascending/descending/permuted, 1e-6..1e9 Hz) plus one frequency at a time; seed-selected "
                "random skeletons with 6..10 leaves. Non-trivial = reference saw an open or shorted part, nesting depth >= 2, or a "
                "non-canonical shape. Oracle: plain complex composition of scalar leaf impedances, tolerance 1e-12 x cancellation factor.")
    ctx.exhaustive = True
    ctx.assumptions = ["leaf impedances are trusted (C02 checks them)", "open/short classification of a leaf = its own scalar get_impedances"]
    objonly = G.object_only_trees(3)
    trees3 = [t for n in (1, 2, 3) for t in G.canonical_trees(n)]
    ctx.pmap(_chunk, _jobs("A<=3", trees3 + objonly, NAMES_A), label="palette A, <=3 leaves + object-only shapes")
    # every registered class at every leaf position
    cls_entries = _all_classes_palette()
    for e in cls_entries:
        BY_NAME[e["name"]] = e
    cls_names = [e["name"] for e in cls_entries]
    lmax_cls = 3 if thorough else 2
    trees_cls = [t for n in range(1, lmax_cls + 1) for t in G.canonical_trees(n)]
    if thorough:
        # 3 leaves x 23 classes x 6 skeletons: restrict the third leaf position to a rotating subset to keep it bounded
        ctx.pmap(_chunk, _jobs("classes", [t for t in trees_cls if G.n_leaves(t) <= 2], cls_names), label="every class, <=2 leaves")
        ctx.pmap(_chunk, [("classes3", t, [a], cls_names[(i % 4)::4], 2) for t in G.canonical_trees(3) for i, a in enumerate(cls_names)],
                 label="every class first leaf, 3 leaves")
    else:
        ctx.pmap(_chunk, _jobs("classes", trees_cls, cls_names), label="every class, <=2 leaves")
    if thorough:
        ctx.pmap(_chunk, _jobs("mid4", G.canonical_trees(4) + G.object_only_trees(4)[len(objonly):], PALETTE_MID), label="9-entry palette, 4 leaves")
        ctx.pmap(_chunk, _jobs("small5", G.canonical_trees(5), PALETTE_SMALL), label="5-entry palette, 5 leaves")
    else:
        ctx.pmap(_chunk, _jobs("small4", G.canonical_trees(4) + G.object_only_trees(4)[len(objonly):], PALETTE_SMALL), label="5-entry palette, 4 leaves")
    nrand = 3200 if thorough else 320
    ctx.pmap(_random_chunk, [(ctx.seed * 1000 + i, nrand // 16, 6, 10) for i in range(16)], label="random 6..10 leaves (seeded extras)")
    depth = 6 if thorough else 5
    jobs = []
    for name, subj in HIST_SUBJECTS.items():
        alpha = _hist_alphabet(subj)
        for route in ("objects", "cdc", "builder"):
            for a in alpha:
                jobs.append((name, route, [a], depth))
    ctx.pmap(_hist_chunk, jobs, label=f"operation sequences of length {depth} on live circuits (evaluate / modify in place), 3 subjects x 3 routes")
    ctx.extra["history_alphabet"] = {k: [H_describe(o, v) for o in _hist_alphabet(v)] for k, v in HIST_SUBJECTS.items()}
    ctx.extra["frequency_vectors"] = {k: len(v) for k, v in FREQ_VECTORS.items()}


def H_describe(o, subj) -> str:
    if o[0] == "obs":
        return f"evaluate {o[1]}"
    m = subj["muts"][o[1]]
    return f"toggle leaf {m['leaf']} {m['kind']} {m.get('key', '')} {m['alt'] if m['kind'] != 'sub' else '<replacement sub-circuit>'}"


def replay(case: dict) -> list:
    if "history" in case:
        v = _hist_violation(case["history"], case["route"], [list(o) for o in case["ops"]], setup())
        return [v] if v else []

    def tup(t):
        return tuple(tup(x) if isinstance(x, list) else x for x in t)

    st = setup()
    for e in _all_classes_palette():
        BY_NAME.setdefault(e["name"], e)
    tree = tup(case["tree"])
    v, _ = check_case(tree, [BY_NAME[x] for x in case["fill"]], st)
    return v
