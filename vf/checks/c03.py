"""C03 - one circuit per CDC, however spelled.

(A) every circuit AST (skeleton x leaf variants) built through the public API: serialize(d) -> parse -> compare with the
    AST rounded to d decimals; serialize/parse/serialize fixed point; deepcopy serialises identically; same impedance.
(B) every spelling of the circuit with <= k switches off the canonical printer position parses to the denoted circuit.
The generator (vf/cdc_model.py) is the oracle.
"""
from __future__ import annotations

import copy
import itertools
import math
import warnings
from typing import Any, Dict, List, Optional, Sequence, Tuple

from vf import cdc_model as M
from vf import gen_circuits as G
from vf.util import exc_signature, norm_msg

ID = "C03"
LEVEL = "exploration"
inf = math.inf

LABELS = ["a", "a b", "R1", "x_1", "1a", "_a", "a{b}c", "a:b", "a,b=2", "a}b", "-x", "Z(1)", "a/b%"]


def _setup():
    warnings.simplefilter("ignore")
    import numpy as np

    np.seterr(all="ignore")
    import pyimpspec  # noqa

    return np


def sub_variants() -> Dict[str, Any]:
    R = M.spec("R", {"R": [2.0, 0.0, inf, False]})
    C = M.spec("C", {"C": [3e-5, 1e-24, 1e3, False]})
    Q = M.spec("Q", {"Y": [5e-3, 1e-24, 1e6, False], "n": [0.8, 0.0, 1.0, True]}, label="zq")
    return {
        "open": None,
        "short": "short",
        "[R]": [("L",), [R]],
        "[RC]": [("S", ("L",), ("L",)), [R, C]],
        "(RC)": [("P", ("L",), ("L",)), [R, C]],
        "[R(RC)]": [("S", ("L",), ("P", ("L",), ("L",))), [R, copy.deepcopy(R), C]],
        "[Tlm]": [("L",), [M.spec("Tlm", {"L": [2.0, 1e-24, inf, True]}, sub={"X_1": [("L",), [Q]]})]],
        # only nested connections at the top level of the sub-circuit (no bare element)
        "[(RC)(RC)]": [("S", ("P", ("L",), ("L",)), ("P", ("L",), ("L",))), [R, C, copy.deepcopy(R), copy.deepcopy(C)]],
        "([RC][RC])": [("P", ("S", ("L",), ("L",)), ("S", ("L",), ("L",))), [R, C, copy.deepcopy(R), copy.deepcopy(C)]],
    }


def leaf_variants(thorough: bool) -> List[Tuple[str, dict]]:
    """(tag, spec) - each a small deviation from a class-default element."""
    V: List[Tuple[str, dict]] = []
    V.append(("R:default", M.spec("R")))
    V.append(("C:default", M.spec("C")))
    V.append(("Q:default", M.spec("Q")))
    V.append(("K:default(private)", M.spec("K")))
    V.append(("La:default", M.spec("La")))
    V.append(("Ls:default", M.spec("Ls")))
    V.append(("Tlm:default", M.spec("Tlm")))
    for lb in LABELS:
        V.append((f"label:{lb}", M.spec("R", label=lb)))
    V.append(("label-on-container", M.spec("Tlm", label="t 1")))
    V.append(("fixed-flipped", M.spec("R", {"R": [1000.0, 0.0, inf, True]})))
    V.append(("fixed-flipped-second", M.spec("Q", {"n": [0.95, 0.0, 1.0, True]})))
    V.append(("fixed-unflipped-K", M.spec("K", {"tau": [1.0, -inf, inf, False]})))
    V.append(("value-at-lower", M.spec("R", {"R": [0.0, 0.0, inf, False]})))
    V.append(("value-at-upper", M.spec("C", {"C": [1e3, 1e-24, 1e3, False]})))
    V.append(("value-many-digits", M.spec("R", {"R": [1234.5678901234567, 0.0, inf, False]})))
    V.append(("value-negative", M.spec("K", {"R": [-2.5, -inf, inf, False]})))
    V.append(("value-negative-zero-at-lower", M.spec("R", {"R": [-0.0, 0.0, inf, False]})))
    V.append(("value-negative-zero-free", M.spec("K", {"R": [-0.0, -inf, inf, False]})))
    V.append(("value-zero-at-negative-zero-upper", M.spec("K", {"R": [0.0, -inf, -0.0, False]})))
    V.append(("limits-tight", M.spec("R", {"R": [50.0, 10.0, 200.0, False]})))
    V.append(("limits-tight-Q", M.spec("Q", {"Y": [3e-5, 1e-6, 1e-3, False], "n": [0.5, 0.25, 0.75, True]}, label="x_1")))
    V.append(("limits-inf", M.spec("C", {"C": [2e-6, -inf, inf, False]})))
    V.append(("limits-lower-minus-inf", M.spec("R", {"R": [-5.0, -inf, 0.5, False]})))
    V.append(("limits-huge-finite", M.spec("R", {"R": [5.0, 0.0, 1e18, False]})))
    V.append(("limits-above-default", M.spec("C", {"C": [2e4, 1e4, 1e5, False]})))
    V.append(("limits-above-default-exponent", M.spec("Q", {"n": [2.5, 2.0, 3.0, False]})))
    V.append(("limits-below-default", M.spec("R", {"R": [-5.0, -10.0, -1.0, False]})))
    V.append(("limits-below-default-C", M.spec("C", {"C": [-1.5, -2.0, -1.0, False]})))
    for name, sv in sub_variants().items():
        V.append((f"sub-Zeta:{name}", M.spec("Tlm", sub={"Zeta": sv})))
        if thorough or name in ("open", "short", "[RC]", "[Tlm]", "[(RC)(RC)]"):
            V.append((f"sub-X_1:{name}", M.spec("Tlm", sub={"X_1": sv, "Z_A": sub_variants()["(RC)"]})))
    # a labelled container whose (last) sub-circuit can be written as a bare list: with the parameters omitted the list is followed by ':label'
    V.append(("sub-labelled-Zeta:[RC]", M.spec("Tlm", label="pore", sub={"Zeta": sub_variants()["[RC]"]})))
    V.append(("sub-labelled-X_1:[R(RC)]", M.spec("Tlm", label="p2", sub={"X_1": sub_variants()["[R(RC)]"]})))
    V.append(("sub-all", M.spec("Tlm", {"L": [0.5, 1e-24, inf, False]}, label="tl",
                                 sub={"X_1": sub_variants()["[RC]"], "X_2": sub_variants()["[R]"], "Z_A": "short",
                                      "Z_B": sub_variants()["(RC)"], "Zeta": sub_variants()["[R(RC)]"]})))
    return V


FILLERS = {"R": M.spec("R"), "C": M.spec("C", {"C": [4.7e-6, 1e-24, 1e3, False]}), "Tlm": M.spec("Tlm")}


def circuits(thorough: bool):
    """(tag, tree, leaves) - the focus leaf takes every variant at every position, other leaves are plain fillers."""
    variants = leaf_variants(thorough)
    lmax = 4 if thorough else 3
    trees = [t for n in range(1, lmax + 1) for t in G.canonical_trees(n)] + G.object_only_trees(3 if thorough else 2)
    for tree in trees:
        nl = G.n_leaves(tree)
        fill_sets = list(itertools.product(FILLERS, repeat=nl - 1)) if nl <= 3 else [("R",) * (nl - 1), ("C", "R", "Tlm")[: nl - 1]]
        for pos in range(max(nl, 1)):
            if nl == 0:
                yield ("empty", tree, [], 0)
                break
            for fs in fill_sets:
                if nl == 3 and not thorough and len(set(fs)) == 1 and fs[0] != "R":
                    continue
                for tag, v in variants:
                    leaves = [copy.deepcopy(FILLERS[x]) for x in fs]
                    leaves.insert(pos, copy.deepcopy(v))
                    yield (tag, tree, leaves, pos)


def _v(key: str, what: str, case: dict, detail: str = "") -> dict:
    return {"key": key, "what": what, "case": case, "detail": detail}


def sw_name(sw: dict) -> str:
    return ",".join(f"{k}={sw[k]}" for k in M.CANON if sw[k] != M.CANON[k]) or "canonical"


def diff_category(df: str) -> str:
    for kw in ("label", "value", "lower", "upper", "fixed", "parameter order", "parameter count", "element type", "sub-circuit", "children", "node"):
        if kw in df.split(": ", 1)[-1]:
            return kw.replace(" ", "-")
    return "other"


def roundtrip_outcome(tree, leaves: Sequence[dict], np) -> Tuple[str, str, str]:
    """-> (kind, message, detail); kind == 'ok' when every clause holds, 'unreachable' when the state cannot be built."""
    from pyimpspec import parse_cdc

    try:
        c = M.build_circuit(tree, leaves)
    except Exception as e:
        return "unreachable", f"{type(e).__name__}: {e}", ""
    canonical_shape = G.is_canonical(tree)
    for d in (1, 3, 12, 17):
        try:
            text = c.serialize(decimals=d)
        except Exception as e:
            return f"serialize-raises:{type(e).__name__}", f"serialize({d}) raised {type(e).__name__}: {str(e)[:80]}", ""
        exp = M.expected_circuit(tree, leaves, d)
        try:
            c2 = parse_cdc(text)
        except Exception as e:
            return (f"own-serialisation-rejected:{type(e).__name__}",
                    f"parse_cdc rejects the circuit's own serialisation ({type(e).__name__}: {str(e)[:70]})", f"text={text!r}")
        df = M.diff(exp, M.observe_circuit(c2))
        if df:
            return f"mismatch:{diff_category(df)}", f"serialize({d}) -> parse does not give the same circuit: {df}", f"text={text!r}"
        try:
            text2 = c2.serialize(decimals=d)
        except Exception as e:
            return f"reserialize-raises:{type(e).__name__}", f"re-serialising raised {type(e).__name__}: {str(e)[:80]}", f"text={text!r}"
        if canonical_shape:
            if text2 != text:
                return "not-a-fixed-point", f"serialize -> parse -> serialize changes the text (decimals={d})", f"{text!r}\n{text2!r}"
        else:
            try:
                text3 = parse_cdc(text2).serialize(decimals=d)
            except Exception as e:
                return f"second-parse-fails:{type(e).__name__}", "the re-serialised text is rejected", text2
            if text3 != text2:
                return "not-stable", "the second serialize -> parse -> serialize still changes the text", f"{text2!r}\n{text3!r}"
    for how, fn in (("deepcopy", copy.deepcopy), ("copy", copy.copy)):
        try:
            cc = fn(c)
        except Exception as e:
            return f"{how}-raises:{type(e).__name__}", f"{how}(circuit) raised {type(e).__name__}: {str(e)[:80]}", ""
        if cc.serialize(17) != c.serialize(17):
            return f"{how}-serialises-differently", f"{how}(circuit).serialize() differs from circuit.serialize()", f"{c.serialize(17)!r}\n{cc.serialize(17)!r}"
    try:
        f = np.array([0.013, 7.0, 4.1e4])
        Z1 = c.get_impedances(f)
    except Exception:
        return "ok", "", ""
    try:
        Z2 = parse_cdc(c.serialize(17)).get_impedances(f)
    except Exception as e:
        return f"impedance-after-roundtrip-raises:{type(e).__name__}", "the re-parsed circuit cannot be simulated although the original can", ""
    if not np.allclose(Z1, Z2, rtol=1e-12, atol=0):
        return "impedance-differs", "impedance changes over the 17-decimal round trip", f"{Z1} vs {Z2}"
    return "ok", "", ""


def spelling_outcome(tree, leaves: Sequence[dict], sw: dict) -> Tuple[str, str, str]:
    from pyimpspec import parse_cdc

    pr = M.print_circuit(tree, leaves, sw)
    if pr is None:
        return "inexpressible", "", ""
    text, implied = pr
    exp = M.expected_for_spelling(tree, implied, sw)
    try:
        c = parse_cdc(text)
    except Exception as e:
        return f"rejected:{type(e).__name__}", f"a valid spelling is rejected: {type(e).__name__}: {str(e)[:70]}", f"text={text!r}"
    df = M.diff(exp, M.observe_circuit(c), rtol=M.pct_rtol(sw))
    if df:
        return f"mismatch:{diff_category(df)}", f"the spelling parses to a different circuit: {df}", f"text={text!r}"
    return "ok", "", ""


def plain_leaf(lf: dict) -> dict:
    return M.spec(lf["sym"])


def shrink(kind: str, tree, leaves: List[dict], focus: int, sw: Optional[dict], np) -> Tuple[Any, List[dict], int, Optional[dict], List[str]]:
    """Greedy reduction keeping the same failure kind. Returns (tree, leaves, focus, sw, responsible features)."""

    def fails(t, ls, s) -> bool:
        try:
            k = (roundtrip_outcome(t, ls, np) if s is None else spelling_outcome(t, ls, s))[0]
        except Exception:
            return False
        return k == kind

    if sw is not None:
        for k in list(M.CANON):
            if sw[k] != M.CANON[k]:
                s2 = dict(sw)
                s2[k] = M.CANON[k]
                if fails(tree, leaves, s2):
                    sw = s2
    # non-focus leaves -> plain resistors
    for i in range(len(leaves)):
        if i != focus:
            ls = list(leaves)
            ls[i] = M.spec("R")
            if fails(tree, ls, sw):
                leaves = ls
    # degenerate object-only shapes: the two minimal representatives
    for t in (("P", ("L",)), ("S", ("L",), ("S",))):
        if tree != t and fails(t, [M.spec("R")], sw):
            tree, leaves, focus = t, [M.spec("R")], 0
            break
    # the whole circuit -> the focus leaf alone
    if leaves and fails(("L",), [leaves[focus]], sw):
        tree, leaves, focus = ("L",), [leaves[focus]], 0
    feats = []
    if sw is not None:
        feats.append(sw_name(sw))
    tag_needed = True
    if leaves:
        ls = list(leaves)
        ls[focus] = plain_leaf(leaves[focus])
        if fails(tree, ls, sw):
            leaves = ls
            tag_needed = False
            ls2 = list(leaves)
            ls2[focus] = M.spec("R")
            if fails(tree, ls2, sw):
                leaves = ls2
    if tree != ("L",):
        feats.append("shape=" + G.tree_str(tree, iter([l["sym"] for l in leaves])))
    return tree, leaves, focus, sw, feats + (["@TAG@"] if tag_needed else [])


def report(part: str, kind: str, msg: str, detail: str, tag: str, tree, leaves: List[dict], focus: int, sw: Optional[dict], np) -> dict:
    t, ls, fo, s, feats = shrink(kind, tree, list(leaves), focus, sw, np)
    for _ in range(4):  # to a fixed point, so that replaying the shrunk case computes the same key
        t2, ls2, fo2, s2, feats2 = shrink(kind, t, list(ls), fo, s, np)
        if (t2, ls2, fo2, s2, feats2) == (t, ls, fo, s, feats):
            break
        t, ls, fo, s, feats = t2, ls2, fo2, s2, feats2
    feats = [tag if f == "@TAG@" else f for f in feats]
    # re-run the shrunk case for an accurate message
    k2, msg2, det2 = (roundtrip_outcome(t, ls, np) if s is None else spelling_outcome(t, ls, s))
    if k2 == kind:
        msg, detail = msg2, det2
    case = {"part": part, "tag": tag, "tree": t, "leaves": ls, "focus": fo, "sw": s, "kind": kind}
    key = f"{part}|{kind}|" + "|".join(feats)
    return _v(key, f"{msg} [{'; '.join(feats)}]", case, detail)


def _chunk(arg) -> dict:
    items, max_dev, do_roundtrip = arg
    np = _setup()
    variants = M.spell_variants(max_dev) if max_dev >= 0 else []
    n = 0
    nontrivial = []
    outcomes: Dict[str, int] = {}
    viols: Dict[str, dict] = {}
    seen_raw: Dict[Tuple, str] = {}
    sample = None

    def add(part, kind, msg, detail, tag, tree, leaves, focus, sw):
        raw = (part, kind, tag, sw_name(sw) if sw else "", tree)
        key = seen_raw.get(raw)
        if key is None:
            v = report(part, kind, msg, detail, tag, tree, leaves, focus, sw, np)
            key = v["key"]
            seen_raw[raw] = key
            if key not in viols:
                v["count"] = 0
                viols[key] = v
        viols[key]["count"] += 1

    for tag, tree, leaves, focus in items:
        if do_roundtrip:
            kind, msg, detail = roundtrip_outcome(tree, leaves, np)
            n += 1
            outcomes["roundtrip:" + kind.split(":")[0]] = outcomes.get("roundtrip:" + kind.split(":")[0], 0) + 1
            nontrivial.append(hash(("rt", tag, tree, repr(leaves))))
            if kind not in ("ok", "unreachable"):
                add("roundtrip", kind, msg, detail, tag, tree, leaves, focus, None)
        if variants and G.cdc_expressible(tree) and G.n_leaves(tree) >= 1:
            for sw in variants:
                kind, msg, detail = spelling_outcome(tree, leaves, sw)
                if kind == "inexpressible":
                    outcomes["spelling:inexpressible"] = outcomes.get("spelling:inexpressible", 0) + 1
                    continue
                n += 1
                outcomes["spelling:" + kind.split(":")[0]] = outcomes.get("spelling:" + kind.split(":")[0], 0) + 1
                if sw != M.CANON:
                    nontrivial.append(hash(("sp", tag, tree, repr(leaves), repr(sw))))
                if kind != "ok":
                    add("spelling", kind, msg, detail, tag, tree, leaves, focus, sw)
                elif sample is None and sum(1 for k in M.CANON if sw[k] != M.CANON[k]) == 2 and "sub" in tag and sw["subform"] == "bare":
                    sample = {"spelling": M.print_circuit(tree, leaves, sw)[0], "switches_off_canonical": sw_name(sw), "variant": tag}
    return {"n": n, "nontrivial": nontrivial, "outcomes": outcomes, "violations": list(viols.values()), "samples": [sample] if sample else []}


# ---------------------------------------------------------------------------------------------------
# E2: operation sequences on live circuits - the text a circuit serialises to, what that text parses back to, and what the short
# spelling with every sub-circuit omitted parses to, after in-place modifications of (other) elements

from vf import circuit_history as H

_DRIVER = None


def _driver():
    global _DRIVER
    if _DRIVER is None:
        _setup()
        from pyimpspec import parse_cdc
        from vf.checks.c01 import HIST_SUBJECTS, setup as c01_setup

        c01_setup()

        import re

        def nofix(text):
            # the construction routes differ in the fixed flag of explicitly given values (CDC: fixed only with the F marker; objects:
            # the class default); no operation of this alphabet touches fixed flags, so they are left out of the comparison
            return re.sub(r"(\d)F/", r"\1/", text)

        def ser(c):
            try:
                return ("ok", (nofix(c.serialize()),))
            except Exception as ex:
                return ("error", type(ex).__name__)

        def rt(c):
            try:
                return ("ok", (nofix(parse_cdc(c.serialize()).serialize()),))
            except Exception as ex:
                return ("error", type(ex).__name__)

        def default_spelling(c):
            # state-independent: the short spelling of two default transmission lines always parses to the documented defaults
            try:
                return ("ok", (nofix(parse_cdc("TlmTlm{X_2=short}").serialize()),))
            except Exception as ex:
                return ("error", type(ex).__name__)

        def default_reference(c):
            d = HIST_SUBJECTS["TlmTlm(defaults)"]
            return ("ok", (nofix(G.circuit_from_objects(d["tree"], d["explicit"]).serialize()),))

        _DRIVER = H.Driver(HIST_SUBJECTS, {"serialize": ser, "serialize>parse>serialize": rt, "parse 'TlmTlm{X_2=short}'": default_spelling},
                           {"serialize": ser, "serialize>parse>serialize": ser, "parse 'TlmTlm{X_2=short}'": default_reference},
                           key_prefix="history", with_copy=True, case_extra={"part": "history"}, obs_word="the text from")
    return _DRIVER


def _hist_chunk(arg) -> dict:
    return _driver().chunk(*arg)


def run(ctx) -> None:
    thorough = ctx.tier == "thorough"
    _setup()
    ctx.rule = ("circuit ASTs = every canonical skeleton with <= 3 (quick) / <= 4 (thorough) leaves and the object-only shapes; one focus leaf "
                "takes every element variant (7 classes incl. a private one and the container; 13 labels covering every first-character class "
                "and CDC metacharacter; fixed flags flipped; values at/inside limits, many-digit and negative values, negative zero; limits tightened, +-inf, "
                "huge finite, both above / both below the class defaults; container sub-circuits open/short/[R]/[RC]/(RC)/[R(RC)]/[Tlm]) at "
                "every position, other leaves are R/C/Tlm fillers. (A) serialize with 1/3/12/17 decimals -> parse -> compare with the AST; fixed "
                "point; copy/deepcopy; impedance. (B) every spelling with <= 2 (quick) / <= 3 (thorough) of 12 printer switches off the canonical "
                "position (outer brackets, version header, parameter block form incl. percentages, omitted parameters, order, fixed marker case, "
                "label, white space, bare sub-circuit list, short/zero, open/inf, decimals). Non-trivial = a round trip of a distinct AST or a "
                "non-canonical spelling of it.")
    ctx.exhaustive = True
    ctx.assumptions = ["class-default sub-circuits of an omitted sub-circuit key are read from the library itself",
                       "states are reached with setter calls in an order the API accepts (the order is the harness's choice)"]
    items = list(circuits(thorough))
    # (A) on everything, (B) on circuits with <= 2 leaves (quick) / <= 3 leaves (thorough)
    small = [it for it in items if G.n_leaves(it[1]) <= (3 if thorough else 2)]
    big = [it for it in items if G.n_leaves(it[1]) > (3 if thorough else 2)]
    max_dev = 3 if thorough else 2
    k = 96
    ctx.pmap(_chunk, [(small[i::k], max_dev, True) for i in range(k) if small[i::k]], label=f"round trips + spellings (<= {max_dev} switches)")
    ctx.pmap(_chunk, [(big[i::k], 0 if thorough else -1, True) for i in range(k) if big[i::k]], label="round trips of larger circuits")
    depth = 5 if thorough else 4
    ctx.pmap(_hist_chunk, _driver().jobs(depth), label=f"operation sequences of length {depth} on live circuits: serialise / re-parse / parse the default spelling "
             "/ modify a (nested) element in place / replace a sub-circuit / deepcopy, 3 subjects x 3 routes")
    ctx.extra["circuit_asts"] = len(items)
    ctx.extra["spelling_variants_per_circuit"] = len(M.spell_variants(max_dev))


def replay(case: dict) -> list:
    np = _setup()
    if case.get("part") == "history":
        v = _driver().violation(case["history"], case["route"], [list(o) for o in case["ops"]])
        return [v] if v else []
    tree = M.tuple_tree(case["tree"])
    leaves = _unjson_leaves(case["leaves"])
    sw = case.get("sw")
    kind, msg, detail = roundtrip_outcome(tree, leaves, np) if case["part"] == "roundtrip" else spelling_outcome(tree, leaves, sw)
    if kind in ("ok", "unreachable", "inexpressible"):
        return []
    return [report(case["part"], kind, msg, detail, case["tag"], tree, leaves, case.get("focus", 0), sw, np)]


def _unjson_leaves(leaves):
    def num(x):
        return float(x) if isinstance(x, str) else x

    out = []
    for lf in leaves:
        lf = copy.deepcopy(lf)
        lf["params"] = {k: [num(v[0]), num(v[1]), num(v[2]), bool(v[3])] for k, v in lf["params"].items()}
        if lf.get("sub"):
            for key, val in list(lf["sub"].items()):
                if isinstance(val, list):
                    lf["sub"][key] = [M.tuple_tree(val[0]), _unjson_leaves(val[1])]
        out.append(lf)
    return out
