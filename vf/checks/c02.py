"""C02 - numeric impedance == documented closed-form equation (elements, circuits, Tlm configurations, limits).

E1 over declared finite grids (see DESIGN.md C02): parameter grid in the class limit box x frequency grid,
two-stage oracle (double precision first pass, 50-digit mpmath adjudication with a conditioning filter).
"""
from __future__ import annotations

import itertools
import math
import warnings
from typing import Any, Dict, List, Optional, Sequence, Tuple

from vf import gen_circuits as G
from vf.refmodels import equations as EQ
from vf.util import CaseTimeout, exc_signature, norm_msg, time_limit

ID = "C02"
LEVEL = "exploration"

_ST: Dict[str, Any] = {}


def setup():
    if _ST:
        return _ST
    warnings.simplefilter("ignore")
    import numpy as np
    import sympy as sp

    np.seterr(all="ignore")
    import pyimpspec  # noqa
    from pyimpspec.circuit.registry import get_elements
    from pyimpspec.circuit.base import Container
    from pyimpspec.exceptions import ImpedanceError, InfiniteLimit, InfiniteImpedance

    _ST.update(np=np, sp=sp, els=get_elements(private=True), Container=Container, ImpedanceError=ImpedanceError,
               InfiniteLimit=InfiniteLimit, InfiniteImpedance=InfiniteImpedance, lam={})
    return _ST


def freq_grid(thorough: bool):
    import numpy as np

    return np.logspace(-6, 9, 46 if thorough else 16)


def is_exponent(lo: float, hi: float) -> bool:
    return math.isfinite(lo) and math.isfinite(hi) and lo >= 0.0 and hi <= 1.0


def param_values(lo: float, hi: float, default: float, thorough: bool) -> List[float]:
    vals = set()
    if is_exponent(lo, hi):
        vals |= set([0.0, 0.1, 0.25, 0.5, 0.75, 0.9, 1.0] if thorough else [0.25, 0.5, 0.8, 1.0])
    else:
        mults = [1e-6, 1e-3, 1e-1, 1.0, 1e1, 1e3, 1e6] if thorough else [1e-3, 1.0, 1e3]
        for m in mults:
            v = default * m
            if lo <= v <= hi:
                vals.add(v)
        if lo == -math.inf:  # K / Ky: negative values are inside the box
            vals.add(-default)
            vals.add(-default * 1e3)
        # finite corners of the box (kept away from exact zeros of scale parameters where the equation is 0/0)
        if math.isfinite(lo) and lo > 0:
            vals.add(lo)
        if math.isfinite(hi):
            vals.add(hi)
    vals.add(default)
    return sorted(v for v in vals if lo <= v <= hi)


def moderate(C, combo: Sequence[float]) -> bool:
    """Inside default x [1e-3, 1e3] for scale parameters and >= 0.25 for exponents."""
    d, lo, hi = C.get_default_values(), C.get_default_lower_limits(), C.get_default_upper_limits()
    for k, v in zip(d, combo):
        if is_exponent(lo[k], hi[k]):
            if v < 0.25:
                return False
        elif not (abs(d[k]) * 0.999e-3 <= abs(v) <= abs(d[k]) * 1.001e3):
            return False
    return True


def class_lambdas(sym: str, st) -> EQ.Lambdas:
    L = st["lam"].get(sym)
    if L is None:
        C = st["els"][sym]
        keys = list(C.get_default_values())
        expr = st["sp"].sympify(C._equation)
        L = EQ.Lambdas(expr, ["f"] + keys)
        st["lam"][sym] = L
    return L


def check_element_point(sym: str, combo: Sequence[float], freqs, st, adjudication_budget: List[int]):
    """-> (violations, stats) for one parameter vector over all frequencies."""
    np = st["np"]
    C = st["els"][sym]
    keys = list(C.get_default_values())
    lam = class_lambdas(sym, st)
    stats = {"points": 0, "first_pass_fail": 0, "illcond": 0, "undefined": 0, "adjudicated_ok": 0, "numeric_raised": 0}
    viols = []
    case = {"part": "element", "sym": sym, "values": dict(zip(keys, combo))}
    e = C(**dict(zip(keys, combo)))
    Zs = lam.numpy_eval(freqs, combo)
    try:
        Zn = e.get_impedances(freqs)
    except Exception as ex:
        stats["numeric_raised"] += 1
        if isinstance(ex, st["ImpedanceError"]) and not moderate(C, combo):
            # an explicit refusal (NaN/inf detected by the library) at an extreme corner of the box is a double-precision
            # range limit, not a wrong value; refusals are only judged inside the moderate sub-box
            stats["refused_outside_moderate_box"] = stats.get("refused_outside_moderate_box", 0) + 1
            return viols, stats
        # numeric refuses: only a violation if the equation is finite everywhere on the grid (50-digit check of 3 points)
        if np.isfinite(Zs).all() and not isinstance(ex, st["ImpedanceError"]):
            viols.append({"key": f"element|numeric-raises|{sym}|{type(ex).__name__}", "case": case,
                          "what": f"{sym}: get_impedances raised {type(ex).__name__} ({str(ex)[:60]}) where the documented equation is finite"})
        elif np.isfinite(Zs).all():
            refs = [lam.mp_eval(float(f), combo) for f in (freqs[0], freqs[len(freqs) // 2], freqs[-1])]
            if all(r is not None and abs(r) < 1e300 for r in refs):
                # per-frequency retry to find whether some frequency alone works
                bad = []
                for f in freqs:
                    try:
                        e.get_impedances(np.array([f]))
                    except Exception:
                        r = lam.mp_eval(float(f), combo)
                        if r is not None and abs(r) < 1e300:
                            bad.append(float(f))
                if bad:
                    viols.append({"key": f"element|numeric-raises|{sym}|{type(ex).__name__}", "case": dict(case, f=bad[0]),
                                  "what": f"{sym}: get_impedances raised {type(ex).__name__} at f={bad[0]:g} where the documented equation is finite"})
        return viols, stats
    for i, f in enumerate(freqs):
        stats["points"] += 1
        zs, zn = Zs[i], complex(Zn[i])
        if math.isfinite(zs.real) and math.isfinite(zs.imag):
            rel = abs(zn - zs) / max(abs(zs), 1e-300)
            if rel <= EQ.FIRST_PASS:
                continue
        # double-precision evaluation of the equation disagrees or over/underflows: the 50-digit reference decides
        stats["first_pass_fail"] += 1
        if adjudication_budget[0] <= 0:
            stats["adjudication_skipped_budget"] = stats.get("adjudication_skipped_budget", 0) + 1
            continue
        adjudication_budget[0] -= 1
        verdict, relref, ref = EQ.adjudicate(lam, float(f), combo, zn)
        if verdict == "illcond":
            stats["illcond"] += 1
        elif verdict == "undefined":
            stats["undefined"] += 1
        elif verdict == "ok":
            stats["adjudicated_ok"] += 1
        else:
            viols.append({"key": f"element|equation-mismatch|{sym}", "case": dict(case, f=float(f)),
                          "what": f"{sym}: numeric impedance differs from the documented equation (rel. {relref:.3g})",
                          "detail": f"f={f:g} numeric={zn} reference(50 digits)={ref} values={dict(zip(keys, combo))}"})
            break
    return viols, stats


def _element_chunk(arg) -> dict:
    sym, combos, thorough, do_sympy_every = arg
    st = setup()
    np = st["np"]
    freqs = freq_grid(thorough)
    budget = [40000 if thorough else 4000]
    n = 0
    stats: Dict[str, int] = {}
    viols: Dict[str, dict] = {}
    nontrivial = []
    sample = None
    C = st["els"][sym]
    defaults = tuple(C.get_default_values().values())
    for idx, combo in enumerate(combos):
        v, s = check_element_point(sym, combo, freqs, st, budget)
        n += len(freqs)
        for k, x in s.items():
            stats[k] = stats.get(k, 0) + x
        if tuple(combo) != defaults:
            nontrivial.append(hash((sym, tuple(combo))))
        if do_sympy_every and idx % do_sympy_every == 0:
            v += check_substituted(sym, combo, freqs[:: 3], st)
            n += len(freqs[::3])
        for x in v:
            old = viols.get(x["key"])
            if old is None:
                x["count"] = 1
                viols[x["key"]] = x
            else:
                old["count"] += 1
        if sample is None and tuple(combo) != defaults:
            sample = {"element": sym, "values": dict(zip(C.get_default_values(), combo)), "frequencies": len(freqs)}
    if budget[0] <= 0:
        stats["adjudication_budget_exhausted_chunks"] = 1
    return {"n": n, "nontrivial": nontrivial, "violations": list(viols.values()), "stats": stats,
            "outcomes": {f"{sym}:checked": len(combos)}, "samples": [sample] if sample else []}


def check_substituted(sym: str, combo: Sequence[float], freqs, st) -> List[dict]:
    """to_sympy(substitute=True) of the element, evaluated, must equal the numeric impedance."""
    np, sp = st["np"], st["sp"]
    C = st["els"][sym]
    keys = list(C.get_default_values())
    e = C(**dict(zip(keys, combo)))
    case = {"part": "element-substituted", "sym": sym, "values": dict(zip(keys, combo))}
    try:
        Zn = e.get_impedances(freqs)
    except Exception:
        return []
    try:
        expr = e.to_sympy(substitute=True)
    except Exception as ex:
        return [{"key": f"substituted|to_sympy-raises|{sym}|{type(ex).__name__}", "case": case,
                 "what": f"{sym}: to_sympy(substitute=True) raised {type(ex).__name__}: {str(ex)[:80]}"}]
    free = {str(s) for s in expr.free_symbols}
    if not free <= {"f"}:
        return [{"key": f"substituted|free-symbols|{sym}", "case": case,
                 "what": f"{sym}: substituted expression still has free symbols {sorted(free)}"}]
    lam = EQ.Lambdas(expr, ["f"])
    Zs = lam.numpy_eval(freqs, [])
    for i, f in enumerate(freqs):
        zs, zn = Zs[i], complex(Zn[i])
        if not (math.isfinite(zs.real) and math.isfinite(zs.imag)):
            continue
        if abs(zn - zs) / max(abs(zs), 1e-300) <= EQ.FIRST_PASS:
            continue
        verdict, relref, ref = EQ.adjudicate(lam, float(f), [], zn)
        if verdict == "genuine":
            return [{"key": f"substituted|mismatch|{sym}", "case": dict(case, f=float(f)),
                     "what": f"{sym}: to_sympy(substitute=True) evaluates differently from get_impedances (rel. {relref:.3g})",
                     "detail": f"f={f:g} numeric={zn} symbolic={ref}"}]
    return []


# ---------------------------------------------------------------------------------------------------
# general transmission line: 36 configurations

TLM_CONTENT = {
    "R": lambda v: (("L",), [G.entry("R", {"R": v})]),
    "RC": lambda v: (("P", ("L",), ("L",)), [G.entry("R", {"R": v}), G.entry("C", {"C": 1e-4 / v})]),
    "Q": lambda v: (("L",), [G.entry("Q", {"Y": 1e-3 / v, "n": 0.8})]),
    "R+Q": lambda v: (("S", ("L",), ("L",)), [G.entry("R", {"R": v}), G.entry("Q", {"Y": 2e-3, "n": 0.9})]),
}


def tlm_entry(x1: str, x2: str, za: str, zb: str, content: str, zeta: str, L: float) -> dict:
    def sub(kind, v):
        if kind == "open":
            return None
        if kind == "short":
            return "short"
        return TLM_CONTENT[content](v)

    return G.entry("Tlm", {"L": L}, sub={"X_1": sub(x1, 2.0), "X_2": sub(x2, 5.0), "Z_A": sub(za, 3.0), "Z_B": sub(zb, 7.0),
                                         "Zeta": TLM_CONTENT[zeta](11.0)},
                   name=f"Tlm[{x1},{x2},{za},{zb},{content},{zeta},L={L}]")


def check_tlm(cfg: Sequence[Any], st) -> Tuple[List[dict], str]:
    np = st["np"]
    e_desc = tlm_entry(*cfg)
    case = {"part": "tlm", "cfg": list(cfg)}
    freqs = np.logspace(4, -3, 8)
    el = G.make_element(e_desc)
    num_exc = sym_exc = None
    try:
        Zn = el.get_impedances(freqs)
    except Exception as ex:
        num_exc = ex
    try:
        expr = el.to_sympy(substitute=True)
    except Exception as ex:
        sym_exc = ex
    both_x_short = cfg[0] == "short" and cfg[1] == "short"
    if num_exc is not None or sym_exc is not None:
        if num_exc is not None and sym_exc is not None:
            # neither representation yields a value: nothing to compare (the property only relates the two);
            # which configurations are refused is reported as a statistic
            return [], ("refused-consistently" if both_x_short else f"refused-by-both({type(num_exc).__name__}/{type(sym_exc).__name__})")
        return [{"key": "tlm|representations-disagree-on-refusal", "case": case,
                 "what": f"Tlm {cfg[:4]}: numeric -> {type(num_exc).__name__ if num_exc else 'value'}, symbolic -> {type(sym_exc).__name__ if sym_exc else 'expression'}",
                 "detail": f"numeric: {num_exc!r}; symbolic: {sym_exc!r}"}], "inconsistent-refusal"
    free = {str(s) for s in expr.free_symbols}
    if not free <= {"f"}:
        return [{"key": "tlm|free-symbols", "case": case, "what": f"Tlm substituted expression has free symbols {sorted(free)}"}], "free-symbols"
    lam = EQ.Lambdas(expr, ["f"])
    Zs = lam.numpy_eval(freqs, [])
    for i, f in enumerate(freqs):
        zs, zn = Zs[i], complex(Zn[i])
        if not (math.isfinite(zs.real) and math.isfinite(zs.imag)):
            continue
        if abs(zn - zs) / max(abs(zs), 1e-300) <= EQ.FIRST_PASS:
            continue
        verdict, relref, ref = EQ.adjudicate(lam, float(f), [], zn)
        if verdict == "genuine":
            return [{"key": f"tlm|numeric-vs-symbolic|{cfg[0]},{cfg[1]},{cfg[2]},{cfg[3]}", "case": dict(case, f=float(f)),
                     "what": f"Tlm configuration (X_1,X_2,Z_A,Z_B)={tuple(cfg[:4])}: numeric impedance differs from the symbolic expression (rel. {relref:.3g})",
                     "detail": f"f={f:g} numeric={zn} symbolic={ref}"}], "mismatch"
    return [], "agree"


def _tlm_chunk(cfgs) -> dict:
    st = setup()
    out: Dict[str, int] = {}
    viols: Dict[str, dict] = {}
    nontrivial = []
    for cfg in cfgs:
        v, o = check_tlm(cfg, st)
        out["tlm:" + o] = out.get("tlm:" + o, 0) + 1
        nontrivial.append(hash(tuple(cfg)))
        for x in v:
            if x["key"] not in viols:
                x["count"] = 1
                viols[x["key"]] = x
            else:
                viols[x["key"]]["count"] += 1
    return {"n": len(cfgs) * 8, "nontrivial": nontrivial, "outcomes": out, "violations": list(viols.values()),
            "samples": [{"tlm_configuration": list(cfgs[0])}] if cfgs else []}


# ---------------------------------------------------------------------------------------------------
# whole circuits: Circuit.to_sympy(substitute=True) vs get_impedances

CIRCUIT_PALETTE = [
    G.entry("R", {"R": 120.0}, name="R"), G.entry("R", {"R": 75.0}, label="ct", name="R:ct"), G.entry("R", {"R": 1e-9}, name="R:tiny"), G.entry("C", {"C": 3e-5}, name="C"),
    G.entry("C", {"C": 8e-6}, label="dl", name="C:dl"), G.entry("Q", {"Y": 4e-4, "n": 0.7}, name="Q"),
    G.entry("L", {"L": 2e-3}, name="L"), G.entry("W", {"Y": 5e-3}, name="W"), G.entry("Tlm", {}, name="Tlm"),
    G.entry("Zarc", {"R": 50.0, "tau": 1e-2, "n": 0.85}, name="Zarc"), G.entry("Ls", {"R_i": 4.0, "R_r": 2.5, "Y": 0.02, "n": 0.9, "d": 0.3}, name="Ls"),
]
CP = {e["name"]: e for e in CIRCUIT_PALETTE}


def check_circuit(tree, names: Sequence[str], st) -> List[dict]:
    np = st["np"]
    case = {"part": "circuit", "tree": tree, "fill": list(names)}
    c = G.circuit_from_objects(tree, [CP[x] for x in names])
    freqs = np.array([1e-3, 0.37, 12.0, 2.2e3, 1e6])
    try:
        Zn = c.get_impedances(freqs)
    except Exception:
        return []
    try:
        expr = c.to_sympy(substitute=True)
    except Exception as ex:
        return [{"key": f"circuit|to_sympy-raises|{type(ex).__name__}|{exc_signature(ex)}", "case": case,
                 "what": f"Circuit.to_sympy(substitute=True) raised {type(ex).__name__}: {str(ex)[:80]}"}]
    free = {str(s) for s in expr.free_symbols}
    if not free <= {"f"}:
        return [{"key": "circuit|free-symbols", "case": case, "what": f"substituted circuit expression has free symbols {sorted(free)}"}]
    lam = EQ.Lambdas(expr, ["f"])
    Zs = lam.numpy_eval(freqs, [])
    for i, f in enumerate(freqs):
        zs, zn = Zs[i], complex(Zn[i])
        if not (math.isfinite(zs.real) and math.isfinite(zs.imag)):
            continue
        if abs(zn - zs) / max(abs(zs), 1e-300) <= EQ.FIRST_PASS:
            continue
        verdict, relref, ref = EQ.adjudicate(lam, float(f), [], zn)
        if verdict == "genuine":
            return [{"key": "circuit|numeric-vs-symbolic", "case": dict(case, f=float(f)),
                     "what": f"circuit {G.tree_str(tree, iter(names))}: symbolic expression with values substituted differs from the numeric impedance (rel. {relref:.3g})",
                     "detail": f"f={f:g} numeric={zn} symbolic={ref}"}]
    return []


def _circuit_chunk(arg) -> dict:
    tree, firsts, names, nrest = arg
    st = setup()
    viols: Dict[str, dict] = {}
    nontrivial = []
    n = 0
    for first in firsts:
        for rest in itertools.product(names, repeat=nrest):
            fill = (first,) + rest
            v = check_circuit(tree, fill, st)
            n += 5
            nontrivial.append(hash((tree, fill)))
            for x in v:
                if x["key"] not in viols:
                    x["count"] = 1
                    viols[x["key"]] = x
                else:
                    viols[x["key"]]["count"] += 1
    return {"n": n, "nontrivial": nontrivial, "violations": list(viols.values()), "outcomes": {"circuit:checked": n // 5},
            "samples": [{"circuit": G.tree_str(tree, iter((firsts[0],) + tuple(names[:nrest])))}]}


# ---------------------------------------------------------------------------------------------------
# limits at 0 Hz and infinite frequency

def check_limits(sym: str, combo: Sequence[float], st, element=None) -> Tuple[List[dict], Dict[str, int]]:
    np = st["np"]
    C = st["els"][sym]
    keys = list(C.get_default_values())
    lam = class_lambdas(sym, st)
    e = element if element is not None else C(**dict(zip(keys, combo)))
    out: Dict[str, int] = {}
    viols = []
    for f, fe, fe2 in ((0.0, 1e-60, 1e-120), (math.inf, 1e60, 1e120)):
        tag = "0" if f == 0 else "inf"
        try:
            with time_limit(30.0):
                Z = complex(e.get_impedances(np.array([f]))[0])
        except CaseTimeout:
            out[f"limit{tag}:timeout"] = out.get(f"limit{tag}:timeout", 0) + 1
            continue
        except Exception as ex:
            out[f"limit{tag}:not-reported({type(ex).__name__})"] = out.get(f"limit{tag}:not-reported({type(ex).__name__})", 0) + 1
            continue
        r1 = lam.mp_eval(fe, combo)
        r2 = lam.mp_eval(fe2, combo)
        if r1 is None or r2 is None:
            out[f"limit{tag}:reference-undefined"] = out.get(f"limit{tag}:reference-undefined", 0) + 1
            continue
        scale = max(abs(r2), abs(Z), 1e-300)
        if abs(r1 - r2) > 1e-5 * scale:
            out[f"limit{tag}:not-converged"] = out.get(f"limit{tag}:not-converged", 0) + 1
            continue
        if abs(Z - r2) > 1e-4 * scale:
            viols.append({"key": f"limit|not-continuous-extension|{sym}|f->{tag}", "case": {"part": "limit", "sym": sym, "values": dict(zip(keys, combo))},
                          "what": f"{sym}: reported limit at f={tag} is {Z} but the finite-frequency values converge to {r2}",
                          "detail": f"values={dict(zip(keys, combo))} Z({fe:g})={r1} Z({fe2:g})={r2}"})
            out[f"limit{tag}:WRONG"] = out.get(f"limit{tag}:WRONG", 0) + 1
        else:
            out[f"limit{tag}:continuous"] = out.get(f"limit{tag}:continuous", 0) + 1
    return viols, out


def limit_sequence(sym: str, seq: Sequence[Sequence[float]], same_instance: bool, st) -> Tuple[List[dict], Dict[str, int]]:
    """Evaluates the 0 Hz / infinite-frequency limits for a *sequence* of parameter vectors of one class in this process
    (a fresh fork of the runner), either on new instances or on one instance updated with set_values.
    A violation records the whole prefix: limits must not depend on what was evaluated before."""
    np = st["np"]
    C = st["els"][sym]
    keys = list(C.get_default_values())
    viols: List[dict] = []
    outs: Dict[str, int] = {}
    inst = C() if same_instance else None
    for i, combo in enumerate(seq):
        if same_instance:
            inst.set_values(**dict(zip(keys, combo)))
            v, o = check_limits(sym, combo, st, element=inst)
        else:
            v, o = check_limits(sym, combo, st)
        for k, x in o.items():
            outs[k] = outs.get(k, 0) + x
        for x in v:
            x["key"] += "|first-evaluation" if i == 0 else "|after-evaluating-other-values" + ("-on-the-same-instance" if same_instance else "")
            x["case"] = {"part": "limit-seq", "sym": sym, "seq": [list(c) for c in seq[: i + 1]], "same_instance": same_instance}
            viols.append(x)
        if v:
            break
    return viols, outs


def _limit_job(arg) -> dict:
    sym, seq, same_instance = arg
    st = setup()
    v, o = limit_sequence(sym, seq, same_instance, st)
    for x in v:
        x["count"] = 1
    return {"n": 2 * len(seq), "nontrivial": [hash(("lim", sym, tuple(map(tuple, seq)), same_instance))], "violations": v, "outcomes": o}


def _fresh_fork(fn, arg):
    import multiprocessing as mp

    with mp.get_context("fork").Pool(1, maxtasksperchild=1) as pool:
        return pool.apply(fn, (arg,))


# ---------------------------------------------------------------------------------------------------
# E2: limits of whole circuits across operation sequences (evaluate at 0 / inf, modify a nested element in place, evaluate again)

from vf import circuit_history as H

LIMHIST_SUBJECTS = {
    "R(RC)(RL)": {"route": "cdc", "tree": ("S", ("L",), ("P", ("L",), ("L",)), ("P", ("L",), ("L",))),
                  "fills": [G.entry("R", {"R": 100.0}), G.entry("R", {"R": 200.0}, label="ct"), G.entry("C", {"C": 1e-6}, label="dl"), G.entry("R", {"R": 50.0}),
                            G.entry("L", {"L": 1e-3})],
                  "muts": [{"leaf": 1, "kind": "values", "alt": {"R": 50.0}}, {"leaf": 3, "kind": "values", "alt": {"R": 75.0}},
                           {"leaf": 2, "kind": "values", "alt": {"C": 1e-5}}]},
    "R(RQ)": {"route": "objects", "tree": ("S", ("L",), ("P", ("L",), ("L",))),
              "fills": [G.entry("R", {"R": 10.0}), G.entry("R", {"R": 200.0}), G.entry("Q", {"Y": 1e-4, "n": 0.8})],
              "muts": [{"leaf": 0, "kind": "values", "alt": {"R": 25.0}}, {"leaf": 1, "kind": "values", "alt": {"R": 80.0}},
                       {"leaf": 2, "kind": "values", "alt": {"n": 0.6}}]},
}
LIMHIST_OBS = {"f=0": [0.0], "f=inf": [math.inf], "f=0,1,inf": [0.0, 1.0, math.inf]}


def _limhist_observations(st, reference: bool):
    np = st["np"]

    def mk(freqs):
        def f(c):
            try:
                if not reference:
                    return ("ok", tuple(complex(z) for z in c.get_impedances(np.array(freqs))))
                # expected: the finite-frequency values have converged at 1e-30 / 1e30 Hz (checked against 1e-40 / 1e40)
                near = [1e-30 if x == 0 else 1e30 if math.isinf(x) else x for x in freqs]
                far = [1e-40 if x == 0 else 1e40 if math.isinf(x) else x for x in freqs]
                a = c.get_impedances(np.array(near))
                b = c.get_impedances(np.array(far))
                if not all(abs(x - y) <= 1e-9 * (abs(x) + 1.0) for x, y in zip(a, b)):
                    return ("not-converged",)
                return ("ok", tuple(complex(z) for z in b))
            except Exception as ex:
                return ("error", type(ex).__name__)
        return f
    return {k: mk(v) for k, v in LIMHIST_OBS.items()}


LIMIT_VECTORS = [list(p) for p in itertools.permutations([0.0, 1.0, math.inf])] + [[0.0, 0.0, 1.0, math.inf], [math.inf, math.inf, 1.0, 0.0],
                                                                                 [math.inf, 0.0], [0.0, math.inf, 0.0]]


def _limvec_violations(name: str, on, st) -> List[dict]:
    """Frequency vectors that mix 0 Hz, infinite and finite frequencies in every order (and with repeats), on a freshly built circuit."""
    np = st["np"]
    subj = LIMHIST_SUBJECTS[name]
    fills = H.spec_state(subj["fills"], subj["muts"], on)
    out = []
    for vec in LIMIT_VECTORS:
        c = H.ROUTES[subj["route"]](subj["tree"], fills)
        near = [1e-30 if x == 0 else 1e30 if math.isinf(x) else x for x in vec]
        try:
            exp = [complex(z) for z in c.get_impedances(np.array(near))]
            got = [complex(z) for z in c.get_impedances(np.array(vec))]
            bad = len(got) != len(exp) or any(abs(a - b) > 1e-6 * abs(b) + 1e-7 for a, b in zip(got, exp))
            what = f"reported {got}, the finite-frequency values converge to {exp}"
        except Exception as ex:
            bad, what = True, f"raised {type(ex).__name__}: {str(ex)[:80]}"
        if bad:
            order = ",".join("0" if x == 0 else "inf" if math.isinf(x) else "f" for x in vec)
            out.append({"key": f"limit-vector|{order}", "what": f"circuit {name}: get_impedances([{order}]) {what}",
                        "case": {"part": "limit-vector", "subject": name, "on": list(on)}, "detail": ""})
    return out


def _limvec_chunk(arg) -> dict:
    name, on = arg
    st = setup()
    v = _limvec_violations(name, on, st)
    seen: Dict[str, dict] = {}
    for x in v:
        x["count"] = 1
        seen.setdefault(x["key"], x)
    return {"n": len(LIMIT_VECTORS), "nontrivial": [hash(("limvec", name, tuple(on), i)) for i in range(len(LIMIT_VECTORS))],
            "outcomes": {"limit-vector:" + ("WRONG" if v else "continuous"): len(LIMIT_VECTORS)}, "violations": list(seen.values())}


def _limhist_run(name: str, ops, st, cache={}):
    subj = LIMHIST_SUBJECTS[name]
    if name not in cache:
        cache[name] = H.reference_table(subj["tree"], subj["fills"], subj["muts"], _limhist_observations(st, True))
        assert all(r[0] == "ok" for t in cache[name].values() for r in t.values()), "limit-history reference did not converge"
    return H.run_history(lambda: H.ROUTES[subj["route"]](subj["tree"], subj["fills"]), subj["fills"], subj["fills"], subj["muts"],
                         _limhist_observations(st, False), cache[name], ops, rtol=1e-6, atol=1e-7)


def _limhist_violation(name: str, ops, st) -> Optional[dict]:
    bad, _ = _limhist_run(name, ops, st)
    if bad is None:
        return None
    ops = H.shrink(list(ops)[: bad["step"] + 1], lambda o: _limhist_run(name, o, st)[0] is not None)
    bad, _ = _limhist_run(name, ops, st)
    sig = ">".join(("limit" if o[0] == "obs" else "set_values") for o in ops)
    return {"key": f"limit-history|{sig}", "what": f"circuit {name}: after the operation sequence {ops} the values reported at {bad['op'][1]} are {bad['got']} "
            f"but the finite-frequency values of the circuit with its current parameters converge to {bad['expected']}",
            "case": {"part": "limit-history", "subject": name, "ops": [list(o) for o in ops]}, "detail": ""}


def _limhist_chunk(arg) -> dict:
    name, prefix, depth = arg
    st = setup()
    subj = LIMHIST_SUBJECTS[name]
    alpha = [["obs", k] for k in LIMHIST_OBS] + [["tog", k] for k in range(len(subj["muts"]))]
    n = nobs = 0
    viols: Dict[str, dict] = {}
    outcomes: Dict[str, int] = {}
    nontrivial = []
    for rest in H.all_sequences(alpha, depth - len(prefix)):
        ops = list(prefix) + list(rest)
        if not any(o[0] == "obs" for o in ops):
            continue
        n += 1
        bad, k = _limhist_run(name, ops, st)
        nobs += k
        togs = sum(1 for o in ops if o[0] == "tog")
        o = f"limit-history:{'continuous' if bad is None else 'WRONG'}/{togs} modifications"
        outcomes[o] = outcomes.get(o, 0) + 1
        if togs:
            nontrivial.append(hash((name, repr(ops))))
        if bad is not None:
            v = _limhist_violation(name, ops, st)
            if v is not None:
                if v["key"] not in viols:
                    v["count"] = 0
                    viols[v["key"]] = v
                viols[v["key"]]["count"] += 1
    return {"n": nobs, "nontrivial": nontrivial, "outcomes": outcomes, "violations": list(viols.values()), "traces": n, "transitions": n * depth,
            "samples": [{"limit_history_subject": name, "operations": ops}] if prefix and prefix[0] == ["tog", 0] and prefix[1] == ["obs", "f=0"] else []}


def grids(thorough: bool, st) -> Dict[str, List[Tuple[float, ...]]]:
    out = {}
    for sym, C in st["els"].items():
        if issubclass(C, st["Container"]):
            continue
        d, lo, hi = C.get_default_values(), C.get_default_lower_limits(), C.get_default_upper_limits()
        axes = [param_values(lo[k], hi[k], d[k], thorough) for k in d]
        total = 1
        for a in axes:
            total *= len(a)
        cap = 60000 if thorough else 6000
        if total > cap:
            # thin the largest axes deterministically (keep default, ends) until under the cap; reported
            while total > cap:
                i = max(range(len(axes)), key=lambda j: len(axes[j]))
                a = axes[i]
                keep = sorted({a[0], a[-1], list(d.values())[i]} | set(a[::2]))
                if len(keep) == len(a):
                    keep = keep[:-1]
                total = total // len(a) * len(keep)
                axes[i] = keep
        out[sym] = list(itertools.product(*axes))
    return out


def run(ctx) -> None:
    thorough = ctx.tier == "thorough"
    st = setup()
    ctx.rule = ("for each of the 22 non-container element classes (public and private): cartesian grid of per-parameter value sets inside "
                "the class limit box (scale parameters: default x {1e-3,1,1e3} quick / 7 decades thorough, plus finite box corners and, "
                "for K/Ky, negative values; exponents {0.25,0.5,0.8,1} quick / 6 values thorough) x 16 (46) log-spaced frequencies in "
                "1e-6..1e9 Hz, numeric vs documented equation with 50-digit adjudication and a conditioning filter; every k-th grid "
                "point also through to_sympy(substitute=True); all 36 open/short/finite configurations of the general transmission line x "
                "sub-circuit contents x L, numeric vs symbolic; every skeleton <= 3 leaves over an 11-entry palette (two entries labelled, one nano-ohm resistor), Circuit.to_sympy "
                "(substitute=True) vs numeric; reported limits at 0 and inf vs converged finite-frequency values (single elements: value sequences; "
                "whole circuits (some elements labelled): frequency vectors mixing 0, inf and finite frequencies in all 6 orders and with repeats; every sequence of 4 (5) operations from {evaluate at 0, at inf, at [0,1,inf]; set_values on one of three nested "
                "elements} vs the converged finite-frequency values of a circuit built with the current parameters). Non-trivial = parameter "
                "vector differs from the class defaults / a Tlm configuration / a composite circuit.")
    ctx.exhaustive = True
    ctx.assumptions = ["the documented equation is Class._equation (what the docs render and to_sympy returns)",
                       "points where the 50-digit reference moves by > 1e-7 under +-8 ulp input perturbation are ill-conditioned and skipped (counted)"]
    g = grids(thorough, st)
    jobs = []
    for sym, combos in g.items():
        size = 400
        for i in range(0, len(combos), size):
            jobs.append((sym, combos[i:i + size], thorough, 40 if not thorough else 25))
    ctx.pmap(_element_chunk, jobs, label="element grids")
    ctx.extra["grid_sizes"] = {s: len(c) for s, c in g.items()}
    # Tlm configurations
    kinds2, kinds3 = ["fin", "short"], ["fin", "short", "open"]
    contents = ["R", "RC", "Q", "R+Q"] if thorough else ["R", "RC"]
    Ls = [0.5, 1.0, 2.0] if thorough else [1.0, 2.0]
    cfgs = [(a, b, c, d, content, "Q" if content != "Q" else "R+Q", L)
            for a in kinds2 for b in kinds2 for c in kinds3 for d in kinds3 for content in contents for L in Ls]
    ctx.pmap(_tlm_chunk, [cfgs[i::32] for i in range(32)], label="Tlm configurations")
    ctx.extra["tlm_configurations"] = len(cfgs)
    # circuits
    names = list(CP)
    cjobs = []
    for n in (1, 2, 3):
        for t in G.canonical_trees(n):
            for nm in names:
                cjobs.append((t, [nm], names if n <= 2 or thorough else names[:6], n - 1))
    ctx.pmap(_circuit_chunk, cjobs, label="circuits numeric vs symbolic")
    # limits: sequences of parameter vectors per class, each sequence in a fresh fork of this process
    ljobs = []
    for sym, combos in g.items():
        C = st["els"][sym]
        d = tuple(C.get_default_values().values())
        sel = [d, combos[-1]]
        if thorough:
            sel += [combos[0], combos[len(combos) // 2], combos[len(combos) // 3]]
        sel = list(dict.fromkeys(sel))
        ljobs.append((sym, sel, False))
        ljobs.append((sym, list(reversed(sel)), False))
        ljobs.append((sym, sel, True))
    ctx.pmap(_limit_job, ljobs, label="limits at 0 and inf (value sequences, fresh process each)", maxtasksperchild=1)
    # limits of whole circuits over operation sequences
    depth = 5 if thorough else 4
    hjobs = []
    for name, subj in LIMHIST_SUBJECTS.items():
        alpha = [["obs", k] for k in LIMHIST_OBS] + [["tog", k] for k in range(len(subj["muts"]))]
        hjobs += [(name, [a, b], depth) for a in alpha for b in alpha]
    ctx.pmap(_limvec_chunk, [(name, on) for name, subj in LIMHIST_SUBJECTS.items() for on in itertools.product((False, True), repeat=len(subj["muts"]))],
             label="frequency vectors mixing 0, inf and finite frequencies in every order")
    ctx.pmap(_limhist_chunk, hjobs, label=f"circuit limits over operation sequences of length {depth} (evaluate at 0/inf, set_values on a nested element)")


def replay(case: dict) -> list:
    st = setup()
    part = case["part"]

    def tup(t):
        return tuple(tup(x) if isinstance(x, list) else x for x in t)

    def fl(v):
        return float(v)

    if part == "element":
        combo = [fl(v) for v in case["values"].values()]
        freqs = freq_grid(True)
        v, _ = check_element_point(case["sym"], combo, freqs, st, [10 ** 6])
        return v
    if part == "element-substituted":
        combo = [fl(v) for v in case["values"].values()]
        return check_substituted(case["sym"], combo, freq_grid(True)[::3], st) + check_substituted(case["sym"], combo, freq_grid(False)[::3], st)
    if part == "tlm":
        return check_tlm(case["cfg"], st)[0]
    if part == "circuit":
        return check_circuit(tup(case["tree"]), case["fill"], st)
    if part == "limit-vector":
        seen = {}
        for x in _limvec_violations(case["subject"], [bool(b) for b in case["on"]], st):
            seen.setdefault(x["key"], x)
        return list(seen.values())
    if part == "limit-history":
        v = _limhist_violation(case["subject"], [list(o) for o in case["ops"]], st)
        return [v] if v else []
    if part == "limit-seq":
        seq = [[fl(v) for v in c] for c in case["seq"]]
        res = _fresh_fork(_limit_job, (case["sym"], seq, bool(case.get("same_instance"))))
        return res["violations"]
    return []
