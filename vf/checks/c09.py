"""C09 - Kramers-Kronig verdicts do not depend on units or point order (E1, metamorphic)."""
from __future__ import annotations

import itertools
import math
import warnings
from typing import Any, Dict, List, Optional, Sequence, Tuple

from vf.refmodels import kk as KK
from vf.util import exc_signature, norm_msg

ID = "C09"
LEVEL = "exploration"
_ST: Dict[str, Any] = {}

SPECTRA = ["CIRCUIT_1", "CIRCUIT_3", "CIRCUIT_5", "CIRCUIT_8", "CIRCUIT_12", "CIRCUIT_17", "ladder:RC2", "ladder:RC3", "ladder:RQ2", "ladder:RCL"]
SCALES = [1e-6, 1e-3, 1e3, 1e6, 2.0 ** -20, 2.0 ** 20]


def setup():
    if _ST:
        return _ST
    warnings.simplefilter("ignore")
    import numpy as np

    np.seterr(all="ignore")
    import pyimpspec
    from pyimpspec import DataSet, generate_mock_data, parse_cdc, perform_kramers_kronig_test
    from vf import schedule

    schedule.install()
    _ST.update(np=np, DataSet=DataSet, gen=generate_mock_data, parse_cdc=parse_cdc, kk=perform_kramers_kronig_test, spectra={})
    return _ST


LADDERS = {
    "ladder:RC2": "R{R=50}(R{R=100}C{C=1e-5})(R{R=300}C{C=1e-3})",
    "ladder:RC3": "R{R=5}(R{R=20}C{C=2e-6})(R{R=80}C{C=1e-4})(R{R=40}C{C=5e-3})",
    "ladder:RQ2": "R{R=10}(R{R=250}Q{Y=2e-5,n=0.85})(R{R=120}Q{Y=3e-3,n=0.7})",
    "ladder:RCL": "R{R=30}L{L=1e-6}(R{R=100}C{C=1e-5})(R{R=60}C{C=2e-3})",
}


def spectrum(name: str, st):
    if name in st["spectra"]:
        return st["spectra"][name]
    np = st["np"]
    if name.startswith("ladder:"):
        c = st["parse_cdc"](LADDERS[name])
        f = np.logspace(4, -1, 41)
        Z = c.get_impedances(f)
    else:
        d = st["gen"](name, noise=0.0)[0]
        f, Z = d.get_frequencies(), d.get_impedances()
    # 0.1 % seeded noise so that the residuals are well above round-off (own generator: independent of the library's noise model)
    rs = np.random.RandomState(12345)
    Z = Z + np.abs(Z) * 1e-3 * (rs.normal(size=len(Z)) + 1j * rs.normal(size=len(Z)))
    st["spectra"][name] = (np.array(f), np.array(Z))
    return st["spectra"][name]


def tolerance(case: dict, fmax: float) -> Tuple[float, str]:
    """(tolerance, tier name) for the relative change of residuals / pseudo chi-squared (calibrated on the unchanged tree, DESIGN C09)."""
    if case["kind"].startswith("reverse"):
        return 0.0, "bit-identical"
    lsq = not case["test"].endswith("-inv") and case["test"] != "cnls"
    if case["test"] == "cnls":
        return 1e-2, "cnls"
    if not case["C"] and not case["L"]:
        return 1e-6, "no-C-no-L"
    if case["kind"] == "scale-Z" and lsq:
        return 1e-6, "lsq-Z-scaling"
    return 1e-3, "C-or-L"


def run_case(case: dict, st=None) -> Tuple[List[dict], Dict[str, Any]]:
    st = st or setup()
    np = st["np"]
    f0, Z0 = spectrum(case["spectrum"], st)
    num_RC = case["num_RC"] if case["num_RC"] > 0 else int(3 * math.log10(f0.max() / f0.min()))
    kw = dict(test=case["test"], num_RC=num_RC, add_capacitance=case["C"], add_inductance=case["L"], admittance=case["adm"],
              num_F_ext_evaluations=0, log_F_ext=case["lfe"], num_procs=1, timeout=600)
    a = b = 1.0
    if case["kind"] == "scale-Z":
        a = case["factor"]
    elif case["kind"] == "scale-f":
        b = case["factor"]
    cfg = f"{case['test']}|{'Y' if case['adm'] else 'Z'}|C={int(case['C'])}|L={int(case['L'])}"
    info = {"tier": None, "dev": None}
    viols: List[dict] = []

    def raw_condition() -> float:
        from vf.checks.c07 import design_condition

        worst = 0.0
        for ff, ZZ in ((f0, Z0), (f0 * b, Z0 * a)):
            taus = KK.time_constants(list(ff), num_RC, case["lfe"])
            worst = max(worst, design_condition(list(ff), taus, {"adm": case["adm"], "C": case["C"], "L": case["L"]}, list(ZZ), np, normalise=False))
        return worst

    def viol(kind, what, detail=""):
        root = ""
        if case["kind"] == "scale-f" and (case["C"] or case["L"]):
            rc = raw_condition()
            if rc > 1e9:
                # the tag names the implementation and representation: only those that show the defect on the unchanged tree are
                # listed as known, a newly affected implementation is reported
                root = f"w-columns-not-equilibrated|{case['test']}|{'Y' if case['adm'] else 'Z'}"
                detail += f" un-normalised design matrix condition {rc:.2g}"
        if root:
            viols.append({"key": f"invariance|{case['kind']}|{kind}|{root}", "what": f"{what} [{cfg}; {root}]", "case": case, "detail": detail})
        else:
            viols.append({"key": f"invariance|{case['kind']}|{kind}|{cfg}", "what": f"{what} [{cfg}]", "case": case, "detail": detail})

    try:
        if case["kind"].startswith("reverse-mask"):
            # the same points with the same three of them excluded, supplied in descending and in ascending order; the mask is given
            # as a complete {index: flag} dictionary or only with its True entries, indices referring to the order supplied
            n_ = len(f0)
            excl = {1, 5, 6}
            full = case["kind"].endswith("complete")
            m0 = {i: (i in excl) for i in range(n_) if full or i in excl}
            m1 = {n_ - 1 - i: v for i, v in m0.items()}
            d0 = st["DataSet"](f0.copy(), Z0.copy(), mask=m0)
            d1 = st["DataSet"](f0[::-1].copy(), Z0[::-1].copy(), mask=dict(sorted(m1.items())))
            r0 = st["kk"](d0, **kw)
            if len(r0.residuals) != n_ - len(excl):
                viol("masked-points-used", f"{len(r0.residuals)} residuals for {n_} points of which {len(excl)} are excluded")
        else:
            r0 = st["kk"](st["DataSet"](f0.copy(), Z0.copy()), **kw)
        if case["kind"].startswith("reverse-mask"):
            pass
        elif case["kind"] == "reverse":
            d1 = st["DataSet"](f0[::-1].copy(), Z0[::-1].copy())
        else:
            d1 = st["DataSet"](f0 * b, Z0 * a)
        r1 = st["kk"](d1, **kw)
    except Exception as e:
        from pyimpspec.exceptions import KramersKronigError

        if isinstance(e, KramersKronigError):
            return [], {"tier": "refused", "dev": None}
        viol(f"raises:{type(e).__name__}", f"perform_kramers_kronig_test raised {type(e).__name__}: {str(e)[:80]}")
        return viols, info
    tol, tier = tolerance(case, float(f0.max()))
    info["tier"] = tier
    scale = max(float(np.max(np.abs(r0.residuals))), 1e-300)
    dev = float(np.max(np.abs(r1.residuals - r0.residuals))) / scale
    devchi = abs(r1.pseudo_chisqr / r0.pseudo_chisqr - 1) if r0.pseudo_chisqr > 0 else 0.0
    info["dev"] = max(dev, devchi)
    name = {"scale-Z": f"|Z| x {a:g}", "scale-f": f"f x {b:g}", "reverse": "reversed point order", "reverse-mask-complete": "reversed point order with a complete mask",
            "reverse-mask-sparse": "reversed point order with a sparse mask"}[case["kind"]]
    if dev > tol:
        viol("residuals-change", f"{name}: relative residuals change by {dev:.3g} of their maximum (tolerance {tol:g})",
             f"spectrum={case['spectrum']} num_RC={num_RC} log_F_ext={case['lfe']}")
    elif devchi > tol:
        viol("pseudo-chisqr-changes", f"{name}: pseudo chi-squared changes by a factor {r1.pseudo_chisqr / r0.pseudo_chisqr:.6g} (tolerance {tol:g})",
             f"spectrum={case['spectrum']} num_RC={num_RC} log_F_ext={case['lfe']}")
    else:
        # time constants and the fitted model rescale accordingly
        t0, t1 = np.array(r0.get_time_constants()), np.array(r1.get_time_constants())
        if len(t0) != len(t1) or not np.allclose(t1, t0 / b, rtol=1e-9, atol=0):
            viol("time-constants", f"{name}: time constants do not rescale by 1/{b:g}")
        ptol = max(tol, 1e-12) * 10
        m0, m1 = np.array(r0.impedances), np.array(r1.impedances)
        if len(m0) != len(m1) or not np.all(np.abs(m1 - a * m0) <= ptol * scale * np.abs(a * m0) + 1e-300):
            viol("model-impedance", f"{name}: the fitted model impedances do not rescale by {a:g}")
        g0, g1 = KK.extract(r0), KK.extract(r1)
        if g0["R0"] is not None and g1["R0"] is not None and not case["kind"].startswith("reverse"):
            exp = (g0["R0"] * a)
            # the series/parallel resistance is only judged when it is a substantial part of the spectrum
            if abs(exp) > 0.05 * float(np.max(np.abs(Z0 * a))) and abs(g1["R0"] - exp) > 1e-2 * abs(exp) and tol <= 1e-6:
                viol("resistance", f"{name}: fitted resistance {g1['R0']!r} is not {a:g} x {g0['R0']!r}")
        if case["kind"].startswith("reverse") and r1.circuit.serialize(17) != r0.circuit.serialize(17):
            viol("circuit", "reversed point order gives a different fitted circuit")
    return viols, info


def _chunk(cases) -> dict:
    st = setup()
    viols: Dict[str, dict] = {}
    nontrivial = []
    outcomes: Dict[str, int] = {}
    n = 0
    worst: Dict[str, float] = {}
    for case in cases:
        v, info = run_case(case, st)
        n += 1
        o = ("violation" if v else "invariant") + ":" + str(info["tier"])
        outcomes[o] = outcomes.get(o, 0) + 1
        if info["dev"] is not None and not v:
            worst[info["tier"]] = max(worst.get(info["tier"], 0.0), info["dev"])
        nontrivial.append(hash(repr(sorted(case.items()))))
        for x in v:
            old = viols.get(x["key"])
            if old is None:
                x["count"] = 1
                viols[x["key"]] = x
            else:
                old["count"] += 1
    return {"n": n, "nontrivial": nontrivial, "outcomes": outcomes, "violations": list(viols.values()), "samples": cases[:1],
            "stats": {}, "worst": worst}


def cases(thorough: bool) -> List[dict]:
    out: List[dict] = []
    spectra = SPECTRA if thorough else ["CIRCUIT_1", "CIRCUIT_5", "CIRCUIT_12", "ladder:RC3", "ladder:RQ2"]
    num_RCs = [3, 8, -1]
    lfes = [0.0, 0.5]
    trans = [("scale-Z", s) for s in SCALES] + [("scale-f", s) for s in SCALES] + [("reverse", 1.0)]
    for sp in spectra:
        for test in KK.LINEAR_TESTS:
            for adm, C in itertools.product((False, True), (False, True)):
                for L in ((True,) if test.endswith("-inv") else (False, True)):
                    for num_RC in num_RCs:
                        for lfe in (lfes if thorough else [0.0, 0.5][: 1 + (num_RC == 8)]):
                            for kind, fac in trans:
                                out.append({"spectrum": sp, "test": test, "adm": adm, "C": C, "L": L, "num_RC": num_RC, "lfe": lfe,
                                            "kind": kind, "factor": fac})
    for sp in (spectra if thorough else spectra[:2]):
        for test in KK.LINEAR_TESTS:
            for adm in (False, True):
                for kind in ("reverse-mask-complete", "reverse-mask-sparse"):
                    out.append({"spectrum": sp, "test": test, "adm": adm, "C": True, "L": True, "num_RC": 8, "lfe": 0.0, "kind": kind, "factor": 1.0})
    for sp in (["CIRCUIT_1", "ladder:RC2"] if thorough else ["ladder:RC2"]):
        for adm in (False, True):
            for kind, fac in [("scale-Z", 1e3), ("scale-f", 1e-3), ("reverse", 1.0)]:
                out.append({"spectrum": sp, "test": "cnls", "adm": adm, "C": True, "L": True, "num_RC": 3, "lfe": 0.0, "kind": kind, "factor": fac})
    return out


def run(ctx) -> None:
    thorough = ctx.tier == "thorough"
    setup()
    ctx.rule = ("spectra: bundled valid mock circuits (3 quick / 6 thorough) and RC/RQ/RCL ladders (2 / 4) with 0.1 % seeded noise x all six linear "
                "tests (+ cnls on 1-2 spectra) x {Z, Y} x add_capacitance x add_inductance x num_RC in {3, 8, 3 per decade} x log_F_ext in "
                "{0, 0.5} x transformations: |Z| x a and f x b for a, b in {1e-6, 1e-3, 1e3, 1e6, 2^-20, 2^20}, and reversed point order (also with three points excluded through a complete or a sparse mask). "
                "Oracle: max |change of relative residual| <= tol x max |residual| and |change of pseudo chi-squared| <= tol, with tol = 0 "
                "(reversal, bit-identical), 1e-6 (no C/L column; every |Z| scaling of the least-squares variants), 1e-3 otherwise; time "
                "constants x 1/b; model impedances x a.")
    ctx.exhaustive = True
    ctx.assumptions = ["tolerance tiers were calibrated once on the unchanged tree (DESIGN.md C09) and are frozen",
                       "num_RC stays in the well-conditioned range (<= 3 per decade)"]
    cs = cases(thorough)
    k = 96
    ctx.pmap(_chunk, [cs[i::k] for i in range(k) if cs[i::k]], label="metamorphic pairs")
    ctx.extra["pairs"] = len(cs)


def replay(case: dict) -> list:
    return run_case(case)[0]
