"""C20 - symbolic, LaTeX and diagram exports exist for every simulable circuit (E1, bounded-exhaustive over circuits)."""
from __future__ import annotations

import itertools
import math
import re
import warnings
from typing import Any, Dict, List, Optional, Sequence, Tuple

from vf import gen_circuits as G
from vf.util import exc_signature, norm_msg

ID = "C20"
LEVEL = "exploration"

SUB_RC = (("P", ("L",), ("L",)), [G.entry("R", {"R": 3.0}), G.entry("C", {"C": 2e-5})])
PALETTE = {
    "R": G.entry("R"), "C": G.entry("C"), "L": G.entry("L"), "La": G.entry("La"), "Q": G.entry("Q"), "W": G.entry("W"),
    "Zarc": G.entry("Zarc"), "Tlm": G.entry("Tlm"), "TlmN": G.entry("Tlm", sub={"X_1": SUB_RC, "Z_B": (("L",), [G.entry("Tlm")])}, name="TlmN"),
}
SMALL = ["R", "C", "Q", "Tlm", "TlmN"]
EXTRA = {"Tlmbq": G.entry("Tlmbq")}   # only used in the label sweep (parameter names Y_B / n_B can collide with a label)
LABELS = ["", "a", "a b", "R1", "x_1", "1a", "_a", "a{b}c", "a:b", "a,b=2", "a}b", "-x", "Z(1)", "a/b%", "x^2", "a_b_c", "$", "\\alpha", "B", "n"]
_ST: Dict[str, Any] = {}


def setup():
    if _ST:
        return _ST
    warnings.simplefilter("ignore")
    import matplotlib

    matplotlib.use("Agg")
    import numpy as np
    import sympy as sp

    np.seterr(all="ignore")
    import pyimpspec  # noqa
    from pyimpspec.circuit.base import Connection, Container

    _ST.update(np=np, sp=sp, Connection=Connection, Container=Container)
    return _ST


def walk(circuit, st, into_containers: bool) -> List[Any]:
    out = []

    def rec(obj):
        if isinstance(obj, st["Connection"]):
            for k in obj:
                rec(k)
        else:
            out.append(obj)
            if into_containers and isinstance(obj, st["Container"]):
                for con in obj.get_subcircuits().values():
                    if con is not None:
                        rec(con)

    rec(circuit.get_connections(recursive=False)[0])
    return out


def shape_feature(tree) -> str:
    """Coarse description of a non-canonical shape for finding keys."""
    feats = set()

    def rec(t, parent):
        if t[0] == "L":
            return
        if len(t) == 1:
            feats.add("empty-" + ("series" if t[0] == "S" else "parallel"))
        elif len(t) == 2:
            feats.add("single-child-" + ("series" if t[0] == "S" else "parallel"))
        if parent == t[0]:
            feats.add("nested-same-kind")
        for k in t[1:]:
            rec(k, t[0])

    rec(tree, None)
    for f in ("empty-series", "empty-parallel", "single-child-parallel", "single-child-series", "nested-same-kind"):
        if f in feats:
            return f  # the most degenerate feature names the shape
    return "canonical"


def check_circuit(c, tree, label: str, st) -> Tuple[List[dict], str]:
    np, sp = st["np"], st["sp"]
    viols: List[dict] = []
    try:
        c.get_impedances(np.array([0.5, 50.0, 5e3]))
    except Exception:
        return [], "not-simulable"
    feat = shape_feature(tree)
    lab = "no-label" if label == "" else ("plain-label" if re.fullmatch(r"[A-Za-z][A-Za-z0-9_ ]*", label) else f"label:{label}")

    def viol(kind, what, detail=""):
        viols.append({"key": f"{kind}|{feat}|{lab}", "what": f"{what} [{feat}; {lab}]", "detail": detail})

    all_el = walk(c, st, True)
    top_el = walk(c, st, False)
    ext = c.generate_element_identifiers(running=False)
    # symbolic
    expr = None
    try:
        expr = c.to_sympy()
    except Exception as e:
        viol(f"to_sympy|raises|{type(e).__name__}", f"to_sympy() raised {type(e).__name__}: {str(e)[:80]}")
    if expr is not None:
        npar = sum(len(e.get_values()) for e in all_el)
        labels_used = [e.get_label() for e in all_el if e.get_label()]
        free = {str(s) for s in expr.free_symbols} - {"f"}
        if len(set(labels_used)) == len(labels_used) and len(free) != npar and not (expr.has(sp.zoo) or expr.has(sp.nan)):
            # a parameter the simulated impedance does not depend on at all (e.g. a sub-circuit that a particular configuration of the
            # general transmission line shorts out) has no variable; count the parameters that matter
            fz = np.array([0.5, 50.0, 5e3])
            Z0 = c.get_impedances(fz)
            influential = 0
            for e_ in all_el:
                for k_, v_ in e_.get_values().items():
                    try:
                        e_.set_values(**{k_: (v_ * 1.37 if v_ != 0 else 0.37)})
                        Z1 = c.get_impedances(fz)
                        if not np.allclose(Z1, Z0, rtol=1e-12, atol=0):
                            influential += 1
                    except Exception:
                        influential += 1
                    finally:
                        e_.set_values(**{k_: v_})
            if len(free) != influential or len(free) > npar:
                viol("to_sympy|variable-count", f"symbolic expression has {len(free)} variables besides f, the circuit has {npar} parameters"
                     + (f" ({influential} of which influence the impedance)" if influential != npar else ""), f"variables={sorted(free)[:12]}")
    try:
        ex2 = c.to_sympy(substitute=True)
        free2 = {str(s) for s in ex2.free_symbols} - {"f"}
        if free2:
            viol("to_sympy(substitute)|free-variables", f"after substitution the expression still has variables {sorted(free2)[:6]}")
    except Exception as e:
        viol(f"to_sympy(substitute)|raises|{type(e).__name__}", f"to_sympy(substitute=True) raised {type(e).__name__}: {str(e)[:80]}")
    try:
        tex = c.to_latex()
        if not isinstance(tex, str) or not tex.startswith("Z = "):
            viol("to_latex|malformed", "to_latex() did not return 'Z = ...'")
    except Exception as e:
        viol(f"to_latex|raises|{type(e).__name__}", f"to_latex() raised {type(e).__name__}: {str(e)[:80]}")
    # CircuiTikZ
    for kwargs in ({}, {"running": True}, {"hide_labels": True}):
        name = "to_circuitikz(" + ",".join(f"{k}={v}" for k, v in kwargs.items()) + ")"
        try:
            tikz = c.to_circuitikz(**kwargs)
        except Exception as e:
            viol(f"to_circuitikz|raises|{type(e).__name__}|{norm_msg(e, 30)}", f"{name} raised {type(e).__name__}: {str(e)[:80]}")
            break
        if tikz.count("\\begin{") != tikz.count("\\end{") or tikz.count("\\begin{circuitikz}") != 1:
            viol("to_circuitikz|unbalanced", f"{name}: begin/end structure is not balanced")
        comps = re.findall(r"to\[([A-Za-z ]+?)(?:=\$(.*?)\$)?\]", tikz)
        comps = [(k, lb) for k, lb in comps if not k.startswith("short")]
        if len(comps) != len(top_el):
            viol("to_circuitikz|component-count", f"{name}: {len(comps)} components drawn for {len(top_el)} elements of the connections")
        nums = re.findall(r"\(([-0-9.eE+]+),\s*([-0-9.eE+]+)\)", tikz)
        if any(not (math.isfinite(float(a)) and math.isfinite(float(b))) for a, b in nums) or "nan" in tikz or "inf" in tikz.replace("\\inf", ""):
            viol("to_circuitikz|non-finite-coordinate", f"{name}: a coordinate is not finite")
        if not kwargs and len(comps) == len(top_el):
            exp_labels = []
            for e in top_el:
                nm = c.get_element_name(e, ext)
                sym = e.get_symbol()
                rest = nm[len(sym) + 1:] if nm.startswith(sym + "_") else nm
                exp_labels.append(f"{sym}_{{\\rm {rest}}}")
            got = sorted(lb for _, lb in comps)
            if got != sorted(exp_labels):
                viol("to_circuitikz|names-differ", f"{name}: component labels are not the names the circuit gives its elements",
                     f"drawn={got[:6]} expected={sorted(exp_labels)[:6]}")
    # schematic drawing
    try:
        import matplotlib.pyplot as plt

        d = c.to_drawing()
        if d is None:
            viol("to_drawing|none", "to_drawing() returned None")
        plt.close("all")
    except Exception as e:
        viol(f"to_drawing|raises|{type(e).__name__}|{norm_msg(e, 30)}", f"to_drawing() raised {type(e).__name__}: {str(e)[:80]}")
    # stack
    try:
        st_ = c.to_stack()
        depth = 0
        for tok, _ in st_:
            if tok in ("[", "("):
                depth += 1
            elif tok in ("]", ")"):
                depth -= 1
            if depth < 0:
                break
        if depth != 0:
            viol("to_stack|unbalanced", "to_stack() brackets are not balanced")
    except Exception as e:
        viol(f"to_stack|raises|{type(e).__name__}", f"to_stack() raised {type(e).__name__}")
    seen, out = set(), []
    for v in viols:
        if v["key"] not in seen:
            seen.add(v["key"])
            out.append(v)
    return out, "checked"


def run_case(case: dict, st=None):
    st = st or setup()
    tree = case["tree"]
    c = G.circuit_from_objects(tree, [PALETTE.get(n) or EXTRA[n] for n in case["fill"]])
    if case.get("label"):
        els = walk(c, st, False)
        if els:
            try:
                els[case.get("label_pos", 0) % len(els)].set_label(case["label"])
            except Exception:
                return [], "label-refused"
    v, o = check_circuit(c, tree, case.get("label", ""), st)
    if not v and o == "checked" and case.get("edit"):
        from vf.checks import c16

        st16 = c16.setup()
        if c16.apply_edit(c, case["edit"], st16):
            v, o2 = check_circuit(c, ("S", ("L",), ("L",)), case.get("label", ""), st)   # shape feature no longer known: judged as canonical
            for x in v:
                x["key"] += f"|after-edit:{case['edit']}"
                x["what"] += f" [after {case['edit']} on the same Circuit object]"
            o = "checked+edited" if o2 == "checked" else "edited-not-simulable"
    for x in v:
        x["case"] = case
    return v, o


def _chunk(cases) -> dict:
    st = setup()
    viols: Dict[str, dict] = {}
    nontrivial = []
    outcomes: Dict[str, int] = {}
    n = 0
    sample = None
    for case in cases:
        v, o = run_case(case, st)
        n += 1
        outcomes[o] = outcomes.get(o, 0) + 1
        if o.startswith("checked") and (G.n_leaves(case["tree"]) >= 2 or case.get("label")):
            nontrivial.append(hash(repr(case)))
            if sample is None and G.n_leaves(case["tree"]) >= 3:
                sample = {"circuit": G.tree_str(case["tree"], iter(case["fill"])), "label": case.get("label", "")}
        for x in v:
            old = viols.get(x["key"])
            if old is None:
                x["count"] = 1
                viols[x["key"]] = x
            else:
                old["count"] += 1
                if len(repr(x["case"])) < len(repr(old["case"])):
                    x["count"] = old["count"]
                    viols[x["key"]] = x
    return {"n": n, "nontrivial": nontrivial, "outcomes": outcomes, "violations": list(viols.values()), "samples": [sample] if sample else []}


def _tlm_configurations() -> Dict[str, dict]:
    from vf.checks.c02 import tlm_entry

    out = {}
    for x1, x2 in itertools.product(("fin", "short"), repeat=2):
        for za, zb in itertools.product(("fin", "short", "open"), repeat=2):
            e = tlm_entry(x1, x2, za, zb, "RC", "Q", 2.0)
            out[e["name"]] = e
    return out


TLM_CFG = _tlm_configurations()
EXTRA.update(TLM_CFG)


def cases(thorough: bool) -> List[dict]:
    out: List[dict] = []
    names = list(PALETTE)
    for n in (1, 2, 3):
        for t in G.canonical_trees(n):
            for fill in itertools.product(names, repeat=n):
                out.append({"tree": t, "fill": list(fill)})
    for t in G.object_only_trees(3):
        nl = G.n_leaves(t)
        for fill in itertools.product(SMALL, repeat=nl):
            out.append({"tree": t, "fill": list(fill)})
    for n in ((4, 5) if thorough else (4,)):
        for t in G.canonical_trees(n):
            pal = SMALL if n == 4 else ["R", "C", "TlmN"]
            fills = itertools.product(pal, repeat=n) if thorough else \
                [tuple(pal[(i + j * (1 + s)) % len(pal)] for j in range(n)) for i in range(len(pal)) for s in range(2)]
            for fill in fills:
                out.append({"tree": t, "fill": list(fill)})
    # every open/short/finite configuration of the general transmission line, alone and nested: one variable per parameter
    for name in TLM_CFG:
        out.append({"tree": ("L",), "fill": [name]})
        out.append({"tree": ("S", ("L",), ("P", ("L",), ("S", ("L",), ("L",)))), "fill": ["R", "C", "R", name]})
    from vf.checks.c16 import EDITS

    for i, c_ in enumerate(out):
        if G.is_canonical(c_["tree"]):
            c_["edit"] = EDITS[i % len(EDITS)]
    # labels on every position of small circuits
    for t in [("L",), ("S", ("L",), ("L",)), ("P", ("L",), ("L",)), ("S", ("L",), ("P", ("L",), ("L",)))]:
        nl = G.n_leaves(t)
        for fill in (["R"] * nl, ["Tlm"] + ["C"] * (nl - 1), ["Q"] * nl, ["Tlmbq"] * nl):
            for lb in LABELS[1:]:
                for pos in range(nl):
                    out.append({"tree": t, "fill": list(fill), "label": lb, "label_pos": pos})
    return out


def run(ctx) -> None:
    thorough = ctx.tier == "thorough"
    setup()
    ctx.rule = ("every canonical skeleton with <= 3 leaves over a 9-entry palette {R, C, L, La, Q, W, Zarc, Tlm, Tlm with nested (RC) and a nested "
                "Tlm}, all 36 open/short/finite configurations of the general transmission line (alone and nested), the object-only shapes over 5 entries, 4 leaves (5 in thorough) over 5 (3) entries (rotating fillings in quick, full product "
                "in thorough), and 19 labels (incl. labels that equal the suffix of a parameter name, e.g. 'B' next to Y_B) (every first-character class, CDC and LaTeX metacharacters) at every position of four small circuits; "
                "only circuits that simulate are judged. Oracles: to_sympy / to_sympy(substitute) / to_latex / to_circuitikz (default, running, "
                "hide_labels) / to_drawing / to_stack return; variable counts; balanced begin/end; one drawn component per element of the "
                "connections, labelled with the circuit's own name for it; finite coordinates. Every canonical circuit is then edited in place (append/remove/set_subcircuits) and all exports are produced again from the same object. Non-trivial = >= 2 leaves or a label.")
    ctx.exhaustive = True
    cs = cases(thorough)
    k = 160
    ctx.pmap(_chunk, [cs[i::k] for i in range(k) if cs[i::k]], label="circuits")
    ctx.extra["circuits"] = len(cs)


def replay(case: dict) -> list:
    def tup(t):
        return tuple(tup(x) if isinstance(x, list) else x for x in t)

    case = dict(case)
    case["tree"] = tup(case["tree"])
    return run_case(case)[0]
