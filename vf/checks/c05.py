"""C05 - a data set keeps frequency, impedance and mask of each point together (E2, explicit-state BFS)."""
from __future__ import annotations

from vf import explore

ID = "C05"
LEVEL = "model_checking"
MODEL = "vf.refmodels.dataset_model"


def run(ctx) -> None:
    thorough = ctx.tier == "thorough"
    ctx.rule = ("breadth-first search over DataSet operation histories on the real class, rebuilt by replay for every transition; first operation "
                "= construction from ascending or descending data with every mask dictionary over keys {-1..n} having <= 2..4 present keys (per size, see parts); then set_mask (same menu incl. {}), low_pass/high_pass with cutoffs on and between the points, "
                "subtract_impedances (scalar, per point), to_dict->json->from_dict without each optional key / without all, from_dict twice on "
                "the same dict, duplicate, average; after every transition all observers (get_frequencies/impedances/magnitudes/phases/"
                "num_points/bode/nyquist/to_dataframe for masked in {None, False, True}, get_mask, to_dict) are compared with a list-of-triples "
                "reference model and the caller's dictionaries are compared with snapshots. States are de-duplicated on (f, Z, mask, label, path).")
    ctx.assumptions = ["set_mask merges (empty dict clears) - the reference model follows the documented/implemented merge semantics",
                       "average() returns an unmasked data set (property is silent; model follows the library)"]
    plan = [(1, 5, 3), (2, 5, 3), (3, 5, 2), (4, 4, 2)] if not thorough else [(1, 7, 3), (2, 7, 4), (3, 6, 3), (4, 6, 3), (5, 5, 2)]
    for n, depth, mk in plan:
        explore.bfs(ctx, MODEL, {"n": n, "max_keys": mk, "init_max_keys": mk}, depth, label=f"DataSet n={n} depth<={depth}")
    ctx.traces = ctx.transitions  # every transition is executed on the real implementation (no separate model to validate)
    ctx.extra["note"] = "model_checking on the implementation itself: every explored transition is a real method call; traces_validated = transitions"


def replay(case: dict) -> list:
    return explore.replay_history(case["model"], case["args"], case["history"])
