"""C13 - DRT results carry the physics: area = resistance, peaks at RC (E1 over a declared ladder grid)."""
from __future__ import annotations

import itertools
import math
import warnings
from typing import Any, Dict, List, Optional, Sequence, Tuple

from vf.util import exc_signature, norm_msg

ID = "C13"
LEVEL = "exploration"
_ST: Dict[str, Any] = {}

TAUS = [3e-4, 2e-2, 1.5, 60.0]
RS = [1.0, 2.5, 0.6, 1.8]
NS_RQ = [0.85, 0.7, 0.85, 0.7]


def setup():
    if _ST:
        return _ST
    warnings.simplefilter("ignore")
    import numpy as np

    np.seterr(all="ignore")
    import pyimpspec
    from pyimpspec import DataSet, calculate_drt, fit_circuit, parse_cdc
    from pyimpspec.exceptions import DRTError
    from vf import schedule

    schedule.install()
    _ST.update(np=np, DataSet=DataSet, drt=calculate_drt, fit=fit_circuit, parse_cdc=parse_cdc, DRTError=DRTError)
    return _ST


def ladder_cdc(k, kind: str, scale: float, R0: float) -> str:
    """k = number of elements, or an explicit list of element indices."""
    s = f"R{{R={R0!r}}}" if R0 else ""
    for i in (range(k) if isinstance(k, int) else k):
        R, t = RS[i] * scale, TAUS[i]
        if kind == "RC" or (kind == "mixedQC" and i % 2 == 1) or (kind == "mixedCQ" and i % 2 == 0):
            s += f"(R{{R={R!r}}}C{{C={t / R!r}}})"
        else:
            n = {"RQ(n=0.999)": 0.999, "RQ(n=0.995)": 0.995, "RQ(n=1)": 1.0}.get(kind, NS_RQ[i])   # exponents at / within 1e-2 of the upper limit
            s += f"(R{{R={R!r}}}Q{{Y={t ** n / R!r},n={n!r}}})"
    return s


def freqs(ppd: int, np, b: float = 1.0):
    return np.logspace(5.5, -4, int(9.5 * ppd) + 1) * b


def spectrum(case: dict, st, R0_factor: float = 0.3, a: float = 1.0, b: float = 1.0):
    np = st["np"]
    c = st["parse_cdc"](ladder_cdc(case["k"], case["kind"], case["scale"], R0_factor * case["scale"]))
    f0 = np.logspace(*case["grid"]) if case.get("grid") else freqs(case["ppd"], np)
    Z = c.get_impedances(f0) * a
    return st["DataSet"](f0 * b, Z), c


def sorted_drt(tau, g, np):
    tau, g = np.asarray(tau, dtype=float), np.asarray(g, dtype=float)
    o = np.argsort(tau)
    return tau[o], g[o]


def run_case(case: dict, st=None) -> Tuple[List[dict], str]:
    st = st or setup()
    np = st["np"]
    viols: List[dict] = []
    part = case["part"]
    k = case["k"]
    Rs = [RS[i] * case["scale"] for i in range(k)]
    taus = TAUS[:k]

    def viol(kind, what, detail=""):
        viols.append({"key": f"drt|{kind}", "what": what, "case": case, "detail": detail})

    try:
        if case.get("pre"):
            # the same method run just before, in this process, on a spectrum with equally many points over another frequency range
            # (other points per decade) or with other impedances: it must leave no trace in the run that is judged
            pc = dict({k_: v for k_, v in case.items() if k_ != "pre"}, **case["pre"])
            try:
                if part == "tr-nnls":
                    st["drt"](spectrum(pc, st)[0], method="tr-nnls", mode=pc["mode"], lambda_value=pc["lam"])
                elif part == "lm":
                    st["drt"](spectrum(pc, st, R0_factor=0.0)[0], method="lm", num_procs=1)
            except Exception:
                pass
        if part == "tr-nnls":
            d, _ = spectrum(case, st)
            r = st["drt"](d, method="tr-nnls", mode=case["mode"], lambda_value=case["lam"])
            tau, g = sorted_drt(*r.get_drt_data(), np)
            cfg = f"tr-nnls|{case['mode']}|lambda={'fixed' if case['lam'] > 0 else ('suggested' if case['lam'] == -1.0 else 'l-curve')}"
            if case.get("pre"):
                cfg += "|after-a-run-on-another-spectrum(" + ",".join(sorted(case["pre"])) + ")"
            if g.min() < 0:
                viol(f"negative-gamma|{cfg}", f"TR-NNLS returned a negative gamma ({g.min():.3g}) [{cfg}]")
            area = float(np.trapezoid(g, np.log(tau)))
            Rpol = sum(Rs)
            tol_area = 0.02 if case["kind"] == "RC" else 0.12
            if abs(area / Rpol - 1) > tol_area:
                viol(f"area-is-not-the-polarisation-resistance|{cfg}|{case['kind']}", f"integral of gamma over ln(tau) = {area:.6g}, polarisation resistance = {Rpol:.6g} (off by {abs(area / Rpol - 1) * 100:.1f} %, tolerance {tol_area * 100:.0f} %) [{cfg}; {case['kind']} ladder]",
                     f"k={k} scale={case['scale']} ppd={case['ppd']}")
            tp, gp = r.get_peaks()
            tp, gp = np.asarray(tp, dtype=float), np.asarray(gp, dtype=float)
            # reading the peaks must not change what the result holds (call order of the accessors is the user's choice)
            tau2, g2_ = sorted_drt(*r.get_drt_data(), np)
            if len(g2_) != len(g) or not np.array_equal(g2_, g) or not np.array_equal(tau2, tau):
                viol(f"result-changes-when-read|{cfg}", f"get_drt_data() returns a different distribution after get_peaks() was called (max gamma {float(np.max(g)):.4g} -> {float(np.max(g2_)):.4g}) [{cfg}]")
            lim = (1.3 * 10 ** (1.0 / case["ppd"])) if case["kind"] == "RC" else 2.5
            worst, worst_t = 1.0, None
            for t in taus:
                ratio = min((max(p / t, t / p) for p in tp), default=float("inf"))
                if ratio > worst:
                    worst, worst_t = ratio, t
            if worst > lim:
                viol(f"no-peak-at-RC|{cfg}|{case['kind']}", f"no peak within a factor {lim:.3g} of the generating time constant {worst_t:g} s (nearest is off by {worst:.3g}) [{cfg}; {case['kind']} ladder]",
                     f"peaks={sorted(tp)} generating={taus} k={k} scale={case['scale']} ppd={case['ppd']}")
        elif part == "lm":
            d, _ = spectrum(case, st, R0_factor=0.0)
            r = st["drt"](d, method="lm", model_order_method=case.get("order_method", "matrix_rank"), num_procs=1)
            try:
                # a result that cannot be read is not a recovered ladder: the accessors are part of the claim (boundary: a single pole)
                t1, g1, t2, g2 = r.get_drt_data()
                t1, g1 = sorted_drt(np.atleast_1d(t1) if np.ndim(t1) else t1, np.atleast_1d(g1) if np.ndim(g1) else g1, np)
                len(t1), len(t2)
                pk = r.get_peaks()
                r.to_peaks_dataframe()
                len(pk[0])
            except Exception as ex:
                viol(f"lm|result-accessor-raises|{type(ex).__name__}", f"the result of the Loewner method for a ladder of {k} cannot be read: {type(ex).__name__}: {str(ex)[:80]}")
                return viols, "violation"
            if len(t2) > 0:
                viol("lm|inductive-branch-reported", f"the Loewner method reports {len(t2)} inductive term(s) for a pure RC ladder")
            if len(t1) != k:
                viol("lm|wrong-number-of-terms", f"the Loewner method found {len(t1)} RC terms for a ladder of {k}")
            else:
                et = float(np.max(np.abs(t1 / np.array(taus) - 1)))
                eR = float(np.max(np.abs(g1 / np.array(Rs) - 1)))
                if et > 1e-5 or eR > 1e-5:
                    viol("lm|pairs-not-recovered", f"Loewner method: (tau_k, R_k) recovered only to {max(et, eR):.3g} (tolerance 1e-5)",
                         f"tau={list(t1)} R={list(g1)} expected tau={taus} R={Rs}")
        elif part == "mrq-fit":
            d, c = spectrum(case, st)
            if case.get("exact_fit"):
                fr = st["fit"](c, d, method="leastsq", weight="boukamp", max_nfev=50, num_procs=1)
                r = st["drt"](d, method="mrq-fit", circuit=fr.circuit, fit=fr, num_procs=1)
            else:
                # start values perturbed: the real fitting path
                c2 = st["parse_cdc"](c.serialize(17))
                for i, e in enumerate(c2.get_elements()):
                    for key, v in e.get_values().items():
                        if key != "n":
                            e.set_values(**{key: v * (1.3 if i % 2 == 0 else 0.75)})
                r = st["drt"](d, method="mrq-fit", circuit=c2, num_procs=1)
            tau, g = sorted_drt(*r.get_drt_data(), np)
            total = float(np.trapezoid(g, np.log(tau)))
            tp = [float(x) for x in r.get_peaks()[0]]
            for t in taus:
                ratio = min((max(p_ / t, t / p_) for p_ in tp), default=float("inf"))
                if ratio > 1.15:
                    viol("mrq-fit|no-peak-at-RC", f"m(RQ)fit: no peak within 15 % of the time constant {t:g} s of a generating element (nearest peak is off by a factor {ratio:.3g})",
                         f"peaks={sorted(tp)} generating={taus} kind={case['kind']} k={k} scale={case['scale']} exact_fit={case.get('exact_fit')}")
                    break
            if abs(total / sum(Rs) - 1) > 0.02:
                viol("mrq-fit|area-is-not-the-polarisation-resistance", f"m(RQ)fit: gamma integrates to {total:.6g}, the polarisation resistance is {sum(Rs):.6g} (off by {abs(total / sum(Rs) - 1) * 100:.1f} %)",
                     f"k={k} scale={case['scale']} exact_fit={case.get('exact_fit')}")
            elif case.get("exact_fit") and k >= 2:
                # per element, by superposition: gamma(ladder) - gamma(ladder without element i) must integrate to R_i
                for i in range(k):
                    keep = [j for j in range(k) if j != i]
                    cdc = ladder_cdc(keep, case["kind"], case["scale"], 0.3 * case["scale"])
                    ci = st["parse_cdc"](cdc)
                    di = st["DataSet"](d.get_frequencies(), ci.get_impedances(d.get_frequencies()))
                    fi = st["fit"](ci, di, method="leastsq", weight="boukamp", max_nfev=50, num_procs=1)
                    ri = st["drt"](di, method="mrq-fit", circuit=fi.circuit, fit=fi, num_procs=1)
                    ti, gi = sorted_drt(*ri.get_drt_data(), np)
                    if len(ti) != len(tau) or not np.allclose(ti, tau, rtol=1e-9):
                        break
                    area = float(np.trapezoid(g - gi, np.log(tau)))
                    if abs(area / Rs[i] - 1) > 0.05:   # up to 3.9 % on the unchanged tree: truncation of the tau grid to the measured window
                        viol("mrq-fit|element-area-is-not-its-resistance", f"m(RQ)fit: the distribution of element {i + 1} integrates to {area:.6g}, its resistance is {Rs[i]:.6g} (off by {abs(area / Rs[i] - 1) * 100:.1f} %)",
                             f"k={k} scale={case['scale']} ppd={case['ppd']}")
                        break
        elif part == "scaling":
            method = case["method"]
            kw = {"tr-nnls": dict(mode="real", lambda_value=1e-3), "lm": dict(num_procs=1), "tr-nnls-auto": dict(mode="real", lambda_value=-1.0)}[method]
            R0f = 0.0 if method == "lm" else 0.3
            d0, _ = spectrum(case, st, R0_factor=R0f)
            a, b = case["a"], case["b"]
            d1, _ = spectrum(case, st, R0_factor=R0f, a=a, b=b)
            m = "lm" if method == "lm" else "tr-nnls"
            r0 = st["drt"](d0, method=m, **kw)
            r1 = st["drt"](d1, method=m, **kw)
            x0, x1 = r0.get_drt_data(), r1.get_drt_data()
            t0, g0 = sorted_drt(x0[0], x0[1], np)
            t1, g1 = sorted_drt(x1[0], x1[1], np)
            name = f"|Z| x {a:g}" if a != 1 else f"f x {b:g}"
            if len(t0) != len(t1):
                viol(f"scaling|length|{method}", f"{name}: the distribution has {len(t1)} instead of {len(t0)} points [{method}]")
            else:
                tol = {"tr-nnls": 1e-6, "lm": 1e-5, "tr-nnls-auto": 1e-3}[method]
                gs = max(float(np.max(np.abs(g0))), 1e-300)
                if not np.allclose(t1, t0 / b, rtol=(1e-6 if method == "lm" else 1e-9), atol=0):
                    viol(f"scaling|tau|{method}", f"{name}: time constants do not scale by 1/{b:g} [{method}]")
                elif float(np.max(np.abs(g1 - a * g0))) > tol * a * gs:
                    viol(f"scaling|gamma|{method}", f"{name}: gamma does not scale by {a:g} (max deviation {float(np.max(np.abs(g1 - a * g0))) / (a * gs):.3g} of its maximum) [{method}]")
    except Exception as e:
        if isinstance(e, st["DRTError"]):
            return [], "refused"
        # entry points that raise are C18's subject: counted, not judged here
        return [], f"raised:{type(e).__name__}"
    return viols, "ok" if not viols else "violation"


def _chunk(cases) -> dict:
    st = setup()
    viols: Dict[str, dict] = {}
    nontrivial = []
    outcomes: Dict[str, int] = {}
    n = 0
    for case in cases:
        v, o = run_case(case, st)
        n += 1
        outcomes[f"{case['part']}:{o}"] = outcomes.get(f"{case['part']}:{o}", 0) + 1
        nontrivial.append(hash(repr(sorted(case.items()))))
        for x in v:
            old = viols.get(x["key"])
            if old is None:
                x["count"] = 1
                viols[x["key"]] = x
            else:
                old["count"] += 1
    return {"n": n, "nontrivial": nontrivial, "outcomes": outcomes, "violations": list(viols.values()), "samples": cases[:1]}


def cases(thorough: bool) -> List[dict]:
    out: List[dict] = []
    scales = [0.1, 10.0, 1e3] if not thorough else [0.1, 1.0, 10.0, 1e2, 1e3]
    ppds = [5, 10, 20]
    for k, scale, ppd, kind, mode, lam in itertools.product((1, 2, 3, 4), scales, ppds, ("RC", "RQ"), ("real", "imaginary"), (1e-3, -1.0, -2.0)):
        out.append({"part": "tr-nnls", "k": k, "scale": scale, "ppd": ppd, "kind": kind, "mode": mode, "lam": lam})
    # call sequences: 96 points over 9.5, 8.5 and 8 decades (10, 11.2, 11.9 points per decade); other ladder / magnitude on the same grid
    GR = {"9.5dec": [5.5, -4, 96], "8.5dec": [5.5, -3, 96], "8dec": [5.0, -3, 96]}
    for a, b in itertools.permutations(GR, 2):
        for k, kind, mode, lam in itertools.product((2, 3), ("RC", "RQ"), ("real", "imaginary"), (1e-3, -1.0)):   # tau <= 1.5 s: well inside every window
            out.append({"part": "tr-nnls", "k": k, "scale": 10.0, "ppd": 10, "grid": GR[a], "kind": kind, "mode": mode, "lam": lam, "pre": {"grid": GR[b]}})
        out.append({"part": "lm", "k": 3, "scale": 10.0, "ppd": 10, "grid": GR[a], "kind": "RC", "pre": {"grid": GR[b]}})
    for k, kind, mode, lam in itertools.product((2, 4), ("RC", "RQ"), ("real", "imaginary"), (1e-3, -1.0)):
        out.append({"part": "tr-nnls", "k": k, "scale": 10.0, "ppd": 10, "kind": kind, "mode": mode, "lam": lam, "pre": {"scale": 1e3, "k": 3}})
        out.append({"part": "tr-nnls", "k": k, "scale": 10.0, "ppd": 10, "kind": kind, "mode": mode, "lam": lam, "pre": {"mode": "imaginary" if mode == "real" else "real"}})
    # the alternative order criterion (pseudo chi-squared) over-fits some noise-free ladders by construction; it is exercised on the
    # configurations where the unchanged tree recovers the pairs exactly (calibrated once: k=2 at every scale, k=4 at scale 0.1; 5 ppd)
    for k, scale in ((2, 0.1), (2, 10.0), (2, 1e3), (4, 0.1)):
        out.append({"part": "lm", "k": k, "scale": scale, "ppd": 5, "kind": "RC", "order_method": "pseudo_chisqr"})
    for k, scale, ppd in itertools.product((1, 2, 3, 4), scales, ppds):
        out.append({"part": "lm", "k": k, "scale": scale, "ppd": ppd, "kind": "RC"})
    for k, scale in itertools.product((1, 2, 3) if not thorough else (1, 2, 3, 4), scales):
        out.append({"part": "mrq-fit", "k": k, "scale": scale, "ppd": 10, "kind": "RQ", "exact_fit": True})
        out.append({"part": "mrq-fit", "k": k, "scale": scale, "ppd": 10, "kind": "RC", "exact_fit": True})   # (RC) elements: Gaussian branch
        if k == 2:
            for kind in ("RQ(n=0.999)", "RQ(n=0.995)", "RQ(n=1)"):   # (RQ) elements that are capacitors to within 1e-2: same branch
                out.append({"part": "mrq-fit", "k": k, "scale": scale, "ppd": 10, "kind": kind, "exact_fit": True})
        if k >= 2:
            out.append({"part": "mrq-fit", "k": k, "scale": scale, "ppd": 10, "kind": "mixedQC", "exact_fit": True})   # (RQ) before (RC)
            out.append({"part": "mrq-fit", "k": k, "scale": scale, "ppd": 10, "kind": "mixedCQ", "exact_fit": True})
        if thorough or k <= 2:
            out.append({"part": "mrq-fit", "k": k, "scale": scale, "ppd": 10, "kind": "RQ", "exact_fit": False})
    for method in ("tr-nnls", "lm", "tr-nnls-auto"):
        for k in ((2, 3) if not thorough else (1, 2, 3, 4)):
            for a, b in ((2.0 ** 10, 1.0), (1e-2, 1.0), (1.0, 2.0 ** 10), (1.0, 1e2)):
                for kind in (("RC",) if method == "lm" else ("RC", "RQ")):
                    out.append({"part": "scaling", "method": method, "k": k, "scale": 10.0, "ppd": 10, "kind": kind, "a": a, "b": b})
    return out


def run(ctx) -> None:
    thorough = ctx.tier == "thorough"
    setup()
    ctx.rule = ("ladders of 1-4 (RC) / (RQ, n in {0.85, 0.7}) elements with time constants {3e-4, 2e-2, 1.5, 60} s (>= 1.5 decades apart and inside "
                "the 9.5-decade window) and resistances within one decade x overall scale {0.1, 10, 1e3} (5 scales thorough) x 5/10/20 points per "
                "decade x TR-NNLS {real, imaginary} x lambda {1e-3, suggested, L-curve}; the Loewner method on the same RC ladders without series "
                "resistance; m(RQ)fit with an exact fit passed in and through the real fitting path from perturbed start values; scalings |Z| x "
                "{2^10, 1e-2}, f x {2^10, 1e2}. Oracles: gamma >= 0, area = R_pol (2 % RC / 12 % RQ), peaks within one grid step of R*C (RQ: "
                "factor 2.5), Loewner pairs exact to 1e-5 and no inductive branch, m(RQ)fit total area = R_pol (2 %) and per-element area by superposition = R_k (5 %), incl. (RC) elements (Gaussian branch) and mixed (RQ)/(RC) ladders in both orders, scaling laws (1e-6; "
                "1e-3 with automatic lambda); TR-NNLS and Loewner runs preceded in the same process by a run on a spectrum with equally many points "
                "over another range (every ordered pair of three 96-point grids), another ladder/magnitude or the other mode. Calls that raise are counted and left to C18.")
    ctx.exhaustive = True
    ctx.assumptions = ["tolerances calibrated on the unchanged tree (DESIGN C13) and frozen"]
    cs = cases(thorough)
    k = 96
    ctx.pmap(_chunk, [cs[i::k] for i in range(k) if cs[i::k]], label="DRT runs")
    ctx.extra["runs"] = len(cs)


def replay(case: dict) -> list:
    return run_case(case)[0]
