"""C15 - the element registry and class defaults can always be restored (E2, explicit-state BFS on the real registry)."""
from __future__ import annotations

from vf import explore

ID = "C15"
LEVEL = "model_checking"
MODEL = "vf.refmodels.registry_model"


def run(ctx) -> None:
    thorough = ctx.tier == "thorough"
    ctx.rule = ("breadth-first search over histories of register_element (valid, second class with the same symbol, impedance contradicting the "
                "equation, symbol shadowing a built-in, symbol sharing a prefix with L/La, two invalid symbols; private flag), remove_elements "
                "(user class, list, built-in, unknown class), reset (4 flag combinations), Class.set_default_values (two built-ins, a user class), "
                "reset_default_parameter_values (None, class, list); every history is replayed from a harness-made hard reset with fresh user "
                "classes; after every transition get_elements (4 flag combinations), the default values of every built-in class, parse_cdc on 15 "
                "probe codes (longest-symbol-wins: L/La/Ls/Lab) and the defaults seen by new instances are compared with a reference registry; "
                "canonical state = reference state + the module-internal dict keys (a refinement, so merged states have the same futures).")
    ctx.assumptions = ["re-registering a built-in class object under a new symbol is outside the alphabet",
                       "ideal reset semantics: reset(elements=True) also forgets the privacy flags of user symbols"]
    depth = 6 if thorough else 4
    explore.bfs(ctx, MODEL, {}, depth, label=f"registry depth<={depth}", chunk=4)
    ctx.traces = ctx.transitions
    ctx.extra["note"] = "every explored transition is executed on the real registry; traces_validated = transitions"


def replay(case: dict) -> list:
    return explore.replay_history(case["model"], case["args"], case["history"])
