"""C04 - parse_cdc is total.

E1 bounded-exhaustive enumeration:
 (a) every string that is a concatenation of <= N lexical atoms (31-atom alphabet; adjacent pairs that merely
     re-spell a longer atom are skipped so that every enumerated string is distinct),
 (b) grammar-derived valid codes x all single mutations (delete / insert atom / substitute atom at every
     character position, truncate at every prefix); thorough: all double character mutations of short codes.
Oracle: outcome class in {Circuit, ParsingError, TokenizingError, ValueError(with message)}; no hang (> 2 s);
accepted => simulable or ImpedanceError; accepted and values within limits => own serialisation re-parses.
"""
from __future__ import annotations

import itertools
import warnings
from typing import Any, Dict, List, Optional, Tuple

from vf.util import CaseTimeout, exc_signature, norm_msg, time_limit

ID = "C04"
LEVEL = "exploration"

ATOMS = ["R", "C", "Tlm", "(", ")", "[", "]", "{", "}", "=", ",", ":", "/", "%", "!", "1", "-1", "1e", "1.5F",
         "inf", "short", "open", "X_1", "R=", "lbl", "-", " ", "V", "0", "1e400", "n="]
# adjacent atom pairs whose concatenation equals a single atom (that shorter sequence is enumerated anyway)
REDUNDANT_PAIRS = {("-", "1"), ("R", "=")}
SMALL_ATOMS = ["R", "Tlm", "(", ")", "[", "]", "{", "}", "=", ",", ":", "/", "1", "X_1", "-", "short"]
TINY_ATOMS = ["R", "Tlm", "(", ")", "[", "{", "}", "=", ",", ":", "X_1", "1"]
EXTRA_MUT_ATOMS = ["é", "_", "+", ".", "e", "\n", "\t", "0", "2", "F", "f", "E", "Q", "n", "Zeta", "zero", "L",
                   "La", "a", "}{", "::", "//"]
CHAR_ALPHABET = list("RCLQ()[]{}=,:/%!1-.eFf _xV")


def _setup():
    warnings.simplefilter("ignore")
    import numpy  # noqa

    numpy.seterr(all="ignore")
    from pyimpspec import parse_cdc
    from pyimpspec.exceptions import ImpedanceError, ParsingError, TokenizingError

    return parse_cdc, ImpedanceError, ParsingError, TokenizingError


def within_limits(circuit) -> bool:
    for e in circuit.get_elements(recursive=True):
        vals = e.get_values()
        for k, v in vals.items():
            lo, hi = e.get_lower_limit(k), e.get_upper_limit(k)
            if not (lo <= v <= hi):
                return False
    return True


def judge(s: str, env=None) -> Tuple[str, Optional[Dict[str, Any]]]:
    """Returns (outcome label, violation or None) for one input string."""
    parse_cdc, ImpedanceError, ParsingError, TokenizingError = env or _setup()
    try:
        with time_limit(2.0):
            c = parse_cdc(s)
    except CaseTimeout:
        return "hang", {"key": "parse|hang", "what": "parse_cdc does not terminate within 2 s", "case": {"cdc": s}}
    except (ParsingError, TokenizingError) as e:
        return ("tokenizer" if isinstance(e, TokenizingError) else "parser") + ":" + type(e).__name__, None
    except ValueError as e:
        if str(e).strip() == "":
            return "ValueError-empty", {"key": "parse|ValueError-without-message@" + exc_signature(e),
                                        "what": "parse_cdc raised a ValueError without explanation",
                                        "case": {"cdc": s}}
        return "ValueError", None
    except RecursionError as e:
        return "RecursionError", {"key": "parse|RecursionError", "what": "RecursionError escapes parse_cdc",
                                  "case": {"cdc": s}}
    except Exception as e:
        sig = exc_signature(e)
        return "escape:" + type(e).__name__, {
            "key": f"parse|{sig}|{norm_msg(e, 40)}",
            "what": f"{type(e).__name__} escapes parse_cdc ({str(e)[:80]})",
            "case": {"cdc": s},
            "detail": f"{type(e).__name__}: {e}",
        }
    # accepted: must denote a well-formed circuit
    try:
        with time_limit(5.0):
            Z = c.get_impedances([1.0, 10.0])
        sim = "simulates"
        if len(Z) != 2:
            return "accepted-badshape", {"key": "accepted|impedance-shape", "what": "accepted code simulates to a wrong shape",
                                         "case": {"cdc": s}}
    except ImpedanceError:
        sim = "impedance-error"
    except CaseTimeout:
        return "sim-hang", {"key": "accepted|simulate-hang", "what": "accepted code does not simulate within 5 s", "case": {"cdc": s}}
    except Exception as e:
        return "accepted-sim-escape", {
            "key": f"accepted|simulate|{exc_signature(e)}|{norm_msg(e, 40)}",
            "what": f"accepted code cannot be simulated: {type(e).__name__} ({str(e)[:80]}) instead of an impedance error",
            "case": {"cdc": s},
            "detail": f"{type(e).__name__}: {e}",
        }
    try:
        inside = within_limits(c)
        text = c.serialize()
    except Exception as e:
        return "accepted-serialize-escape", {
            "key": f"accepted|serialize|{exc_signature(e)}|{norm_msg(e, 40)}",
            "what": f"accepted code cannot be serialised: {type(e).__name__} ({str(e)[:80]})",
            "case": {"cdc": s}, "detail": f"{type(e).__name__}: {e}"}
    if inside:
        try:
            parse_cdc(text)  # acceptance only: equality of the round trip is C03's subject
        except Exception as e:
            return "accepted-reparse-fails", {
                "key": f"accepted|reparse|{type(e).__name__}|{exc_signature(e)}|{norm_msg(e, 30)}",
                "what": f"the extended serialisation of an accepted code is rejected: {type(e).__name__} ({str(e)[:80]})",
                "case": {"cdc": s}, "detail": f"serialisation {text!r}: {type(e).__name__}: {e}"}
    return "accepted:" + sim, None


def _run_strings(strings, label: str) -> dict:
    env = _setup()
    out: Dict[str, int] = {}
    viols: Dict[str, dict] = {}
    n = 0
    nontrivial = 0
    sample = None
    for s in strings:
        n += 1
        o, v = judge(s, env)
        out[o] = out.get(o, 0) + 1
        if not o.startswith("tokenizer"):
            nontrivial += 1
            if sample is None and o.startswith("accepted") and len(s) > 6:
                sample = {"input": s, "outcome": o, "part": label}
        if v is not None:
            old = viols.get(v["key"])
            if old is None:
                v["count"] = 1
                viols[v["key"]] = v
            else:
                old["count"] += 1
                if (len(s), s) < (len(old["case"]["cdc"]), old["case"]["cdc"]):
                    v["count"] = old["count"]
                    viols[v["key"]] = v
    return {"n": n, "nontrivial_count": nontrivial, "outcomes": out, "violations": list(viols.values()),
            "samples": [sample] if sample else []}


def _seqs(atoms: List[str], n: int, prefix: Tuple[str, ...]):
    for rest in itertools.product(atoms, repeat=n - len(prefix)):
        seq = prefix + rest
        ok = True
        for a, b in zip(seq, seq[1:]):
            if (a, b) in REDUNDANT_PAIRS and (a + b) in atoms:
                ok = False
                break
        if ok:
            yield "".join(seq)


def _atom_chunk(arg) -> dict:
    name, atoms, n, prefix = arg
    return _run_strings(_seqs(atoms, n, tuple(prefix)), f"{name} N={n}")


def _atom_jobs(name: str, atoms: List[str], nmin: int, nmax: int, plen: int = 2):
    jobs = []
    for n in range(nmin, nmax + 1):
        p = min(plen, n)
        for prefix in itertools.product(atoms, repeat=p):
            jobs.append((name, atoms, n, list(prefix)))
    return jobs


# ---------------------------------------------------------------------------------------------------
# grammar-derived valid codes

ELEMENT_SPELLINGS = [
    "R", "C", "L", "Q", "W", "La", "Ls", "K", "Tlm", "Zarc",
    "R{R=2}", "R{R=1.5F}", "R{R=2.5e2f/1/1e3}", "R{R=1/50%/200%}", "R{R=5//inf}", "R{R=5/inf}", "R{R=3/1}",
    "R{:lbl}", "R{R=2:a b}", "R{R=4:x{y}z}", "C{C=1e-6/1e-9/1e-3}", "Q{Y=1e-5,n=0.8f}", "Q{n=0.5,Y=2E-6/0:cpe}",
    "K{R=1,tau=1e-3}", "Ls{R_i=2,R_r=3}",
    "Tlm{X_1=[R],X_2=short}", "Tlm{X_1=open,X_2=zero,Z_A=inf,Z_B=(RC),Zeta=[RQ],L=2}", "Tlm{L=0.5F,Zeta=R:tl}",
    "Tlm{X_1=RC}", "Tlm{X_1=[R(RC)],Zeta=(Q[RW])}", "Tlm{Z_A=[Tlm{X_1=R}]}",
    # values on the limits, zero exponents, numbers beyond the double range
    "R{R=0}", "Q{n=0}", "Q{n=1}", "W{n=0}", "C{C=1e3}", "Tlmbs{n=0}", "Tlmbo{n=0}", "R{R=1e400}", "K{R=-1e400}", "La{L=0,n=0}",
    "Tlm{X_1=[(RC)(RC)]}", "Tlm{Zeta=([RC][RQ])}",
]


def valid_codes(limit: Optional[int] = None) -> List[str]:
    es = ELEMENT_SPELLINGS
    codes: List[str] = []
    codes += es
    pick = lambda i: es[i % len(es)]
    i = 0
    # a deterministic spread of topologies over the spellings
    for a in range(len(es)):
        b, c, d = pick(a * 7 + 3), pick(a * 11 + 5), pick(a * 13 + 1)
        A = es[a]
        codes += [
            f"{A}{b}", f"[{A}{b}]", f"({A}{b})", f"{A}({b}{c})", f"({A}[{b}{c}])", f"[{A}({b}[{c}{d}])]",
            f"({A}{b}{c})", f"!V=1!{A}({b}{c})", f"!v=1![{A}]", f" {A} ( {b} {c} ) ",
            f"(({A}{b})({c}{d}))", f"[[{A}]{b}]",
        ]
    codes += ["", "[]", "!V=1![]", "R{R=1}C{C=1}", "(R{R=1.0E+01/0.0E+00/inf:foo}C)", "[R(C[RW])]"]
    seen, out = set(), []
    for c in codes:
        if c not in seen:
            seen.add(c)
            out.append(c)
    return out[:limit] if limit else out


def single_mutations(code: str, atoms: List[str]):
    L = len(code)
    for i in range(L):
        yield code[:i] + code[i + 1:]          # deletion
        yield code[:i]                          # truncation (prefix)
    for i in range(L + 1):
        for a in atoms:
            yield code[:i] + a + code[i:]      # insertion
    for i in range(L):
        for a in atoms:
            if a != code[i]:
                yield code[:i] + a + code[i + 1:]  # substitution


def _mut1_chunk(codes: List[str]) -> dict:
    atoms = ATOMS + EXTRA_MUT_ATOMS

    def gen():
        for c in codes:
            seen = set()
            for m in single_mutations(c, atoms):
                if m not in seen:
                    seen.add(m)
                    yield m

    return _run_strings(gen(), "single mutations of valid codes")


def _mut2_chunk(arg) -> dict:
    code, lo, hi = arg  # double character mutations: first mutation index range [lo,hi)

    def gen():
        firsts = list(dict.fromkeys(single_mutations(code, CHAR_ALPHABET)))
        seen = set()
        for m in firsts[lo:hi]:
            for m2 in single_mutations(m, CHAR_ALPHABET):
                if m2 not in seen:
                    seen.add(m2)
                    yield m2

    return _run_strings(gen(), "double character mutations")


def _valid_chunk(codes: List[str]) -> dict:
    env = _setup()
    part = _run_strings(codes, "valid codes")
    # the grammar-derived codes must themselves be accepted (guards the generator, not the library)
    bad = [c for c in codes if not judge(c, env)[0].startswith("accepted")]
    part["stats"] = {"valid_codes_not_accepted": len(bad)}
    if bad:
        part["samples"] = [{"generator_code_not_accepted": b, "outcome": judge(b, env)[0]} for b in bad[:5]]
    return part


DEPTH_FAMILIES = {
    "parallel-in-parallel": lambda d: "(R" * d + "R" + ")" * d,
    "series-in-series": lambda d: "[R" * d + "]" * d,
    "alternating": lambda d: "(R[R" * (d // 2) + "R" + "])" * (d // 2),
    "only-openers": lambda d: "(" * d,
    "only-closers": lambda d: ")" * d,
    "openers-then-element": lambda d: "[" * d + "R",
    "container-in-container": lambda d: "Tlm{X_1=" * d + "R" + "}" * d,
    "container-list-in-container": lambda d: "Tlm{X_1=[R" * d + "]}" * d,
    "many-limits": lambda d: "R{R=1" + "/1" * d + "}",
    "many-parameters": lambda d: "R{" + ",".join(["R=1"] * d) + "}",
    "long-number": lambda d: "R{R=" + "1" * d + "}",
    "long-exponent": lambda d: "R{R=1e-" + "9" * d + "}",
    "long-label": lambda d: "R{:" + "a" * d + "}",
    "long-symbol": lambda d: "R" + "a" * d,
    "flat-series": lambda d: "RC" * d,
    "flat-parallel": lambda d: "(" + "RC" * d + ")",
    "many-version-marks": lambda d: "!V=1!" * d + "R",
}
DEPTHS = [2, 8, 32, 128, 512, 2048, 8192]


def _depth_chunk(arg) -> dict:
    name, depths = arg
    return _run_strings([DEPTH_FAMILIES[name](d) for d in depths], "depth:" + name)


def run(ctx) -> None:
    thorough = ctx.tier == "thorough"
    ctx.rule = ("(a) all concatenations of <= N atoms of a 31-atom lexical alphabet (N=4 quick, N=5 thorough; plus N<=6 over a 16-atom "
                "and N<=7 over a 12-atom sub-alphabet in thorough), redundant re-spellings skipped so every string is distinct; "
                "(b) grammar-derived valid codes x every single mutation (deletion, prefix truncation, insertion and substitution of "
                "each of 50 atoms at every character position); thorough: every double character mutation of the short valid codes; "
                "(c) 17 one-parameter families that repeat one recursive production or one unbounded lexical item d times, d in {2, 8, 32, "
                "128, 512, 2048, 8192} (nested connections, nested containers, openers / closers only, limits, parameters, digits, label and "
                "symbol characters, flat element lists, version marks). "
                "Non-trivial = the string got past the tokenizer (reached the parser or was accepted).")
    ctx.exhaustive = True
    ctx.assumptions = ["a parse taking > 2 s counts as non-termination", "atoms outside the alphabet are reached only through mutations"]
    nmax = 5 if thorough else 4
    ctx.pmap(_atom_chunk, _atom_jobs("31-atom", ATOMS, 0, nmax), label=f"atoms<= {nmax}")
    if thorough:
        ctx.pmap(_atom_chunk, _atom_jobs("16-atom", SMALL_ATOMS, 6, 6), label="16-atom N=6")
        ctx.pmap(_atom_chunk, _atom_jobs("12-atom", TINY_ATOMS, 7, 7), label="12-atom N=7")
    # one-parameter families along every recursive production and every unbounded lexical item
    ctx.pmap(_depth_chunk, [(name, [d for d in DEPTHS if not (name.startswith("flat") and d > 2048)]) for name in DEPTH_FAMILIES],
             label="nesting-depth and length families (2 .. 8192)")
    codes = valid_codes()
    ctx.pmap(_valid_chunk, [codes[i::8] for i in range(8)], label="valid codes")
    ctx.pmap(_mut1_chunk, [[c] for c in codes], label="single mutations")
    if thorough:
        short = [c for c in codes if 3 <= len(c) <= 14][:24]
        jobs = []
        for c in short:
            nfirst = len(list(dict.fromkeys(single_mutations(c, CHAR_ALPHABET))))
            step = 120
            jobs += [(c, lo, min(lo + step, nfirst)) for lo in range(0, nfirst, step)]
        ctx.pmap(_mut2_chunk, jobs, label="double mutations")
    ctx.extra["valid_codes"] = len(codes)


def replay(case: dict) -> list:
    o, v = judge(case["cdc"])
    return [v] if v else []
