"""C06 - writing a spectrum to a supported file layout and parsing it returns it (E1, cross product of conventions)."""
from __future__ import annotations

import contextlib
import io
import itertools
import os
import shutil
import sys
import tempfile
import warnings
from typing import Any, Dict, List, Optional, Sequence, Tuple

from vf import gen_files as F
from vf.util import exc_signature, norm_msg

ID = "C06"
LEVEL = "exploration"

CANON = {"kind": "table", "polar": False, "f": "frequency", "a": "real", "b": "imaginary", "case": "lower", "neg_a": "", "neg_b": "",
         "unit": "none", "order": "f-first", "sep": ",", "dec": ".", "rows": "desc", "sweeps": 1, "n": 3, "seed": 1, "window": "same", "whole": "none"}
CANON_POLAR = dict(CANON, polar=True, a="magnitude", b="phase")
_ST: Dict[str, Any] = {}


def setup():
    if _ST:
        return _ST
    warnings.simplefilter("ignore")
    import numpy as np
    from pyimpspec import parse_data

    _ST.update(np=np, parse_data=parse_data, tmp=tempfile.mkdtemp(prefix="vf_c06_"))
    return _ST


def make_sweeps(case: dict) -> List[List[Tuple[float, complex]]]:
    out = []
    for k in range(int(case["sweeps"])):
        sw = F.spectrum(int(case["n"]), int(case["seed"]) * 10 + k)
        # consecutive sweeps over different frequency windows: "away" from the first sweep's start in the direction opposite to the row
        # order (1e6 per sweep), "toward" it (1e3 per sweep, overlapping windows); the sweep boundary stays a reversal of direction
        win = case.get("window", "same")
        if win != "same" and k:
            factor = {"away": 1e6, "toward": 1e-3}[win]
            if case["rows"] == "asc":
                factor = 1.0 / factor
            sw = [(f * factor ** k, z) for f, z in sw]
        whole = case.get("whole", "none")
        if whole != "none":
            # whole-number cells (written without a fractional part): frequencies on a decade grid and/or integer-valued parts
            def W(x, i):
                r = float(round(x))
                return r if r != 0 else (float(i + 1) if x >= 0 else -float(i + 1))
            top = max(len(sw) - 1, 1)
            sw = [((10.0 ** (top - i) if whole in ("f", "all") else f),
                   complex(W(z.real, i) if whole in ("re", "all") else z.real, W(z.imag, i) if whole == "all" else z.imag))
                  for i, (f, z) in enumerate(sw)]
            if win != "same" and k and whole in ("f", "all"):
                sw = [(f * factor ** k, z) for f, z in sw]
        if case["rows"] == "asc":
            sw = list(reversed(sw))
        out.append(sw)
    return out


def emit(case: dict):
    """-> (filename, text, encoding, rtol, expected list of sweeps) or None if the combination is outside the documented contract."""
    sweeps = make_sweeps(case)
    if case["kind"] == "table":
        txt = F.table(sweeps, polar=case["polar"], f_alias=case["f"], a_alias=case["a"], b_alias=case["b"], case=case["case"],
                      neg_a=case["neg_a"], neg_b=case["neg_b"], unit=case["unit"], order=case["order"], sep=case["sep"], decimal=case["dec"],
                      ints=case.get("whole", "none") != "none")
        if txt is None:
            return None
        ext = case.get("ext", ".csv")
        return "t" + ext, txt, "utf-8", (1e-9 if case["polar"] else 1e-11), sweeps  # pandas' float conversion is not round-trip exact (~1e-13)
    lay = case["layout"]
    dec = case.get("dec", ".")
    if lay == "mpt":
        name, txt, enc, rtol = F.mpt(sweeps, dec)
        return name, txt, enc, rtol, sweeps
    sw = sweeps[0]
    if lay == "dta-drift":
        name, txt, enc, rtol = F.dta(sw, True)
        return name, txt, enc, rtol, [[(f, z * 1.5) for f, z in sw], sw]
    fn = {"i2b": F.i2b, "P00": F.p00, "dfr": F.dfr, "z": F.zplot, "dta": F.dta}[lay]
    name, txt, enc, rtol = fn(sw, dec) if lay in ("P00", "dfr") else fn(sw)
    return name, txt, enc, rtol, [sw]


def compare(ds_list, expected, rtol: float, st) -> Optional[Tuple[str, str]]:
    np = st["np"]
    if len(ds_list) != len(expected):
        return "sweep-count", f"{len(ds_list)} data sets for {len(expected)} sweeps"
    for i, (d, sw) in enumerate(zip(ds_list, expected)):
        pts = sorted(sw, key=lambda t: -t[0])
        f = np.array([p[0] for p in pts])
        Z = np.array([p[1] for p in pts])
        fo, Zo = d.get_frequencies(masked=None), d.get_impedances(masked=None)
        if len(fo) != len(f):
            return "point-count", f"sweep {i + 1}: {len(fo)} points parsed, {len(f)} written"
        if not np.allclose(fo, f, rtol=rtol, atol=0):
            return "frequencies", f"sweep {i + 1}: frequencies {fo[:3]} != {f[:3]}"
        if not (np.allclose(Zo.real, Z.real, rtol=rtol, atol=0) and np.allclose(Zo.imag, Z.imag, rtol=rtol, atol=0)):
            sign = "sign-of-imaginary-part" if np.allclose(Zo.real, Z.real, rtol=rtol, atol=0) and np.allclose(Zo.imag, -Z.imag, rtol=rtol, atol=0) else "impedances"
            return sign, f"sweep {i + 1}: impedances {Zo[:2]} != {Z[:2]}"
        if len(expected) > 1 and case_label_check(d, i) is not None:
            return "sweep-label", case_label_check(d, i)
    return None


def case_label_check(d, i: int) -> Optional[str]:
    lb = d.get_label()
    if f"({i + 1})" not in lb and "drift corrected" not in lb and "uncorrected" not in lb:
        return f"data set {i + 1} of a multi-sweep file is labelled {lb!r}"
    return None


def outcome(case: dict, st) -> Tuple[str, str]:
    em = emit(case)
    if em is None:
        return "outside-contract", ""
    name, txt, enc, rtol, expected = em
    os.makedirs(st["tmp"], exist_ok=True)
    path = os.path.join(st["tmp"], f"{os.getpid()}_{name}")
    with open(path, "w", encoding=enc, newline="") as fp:
        fp.write(txt)
    try:
        try:
            ds = st["parse_data"](path)
        except Exception as e:
            return f"raises:{type(e).__name__}@{exc_signature(e).split('@')[-1]}", f"parse_data raised {type(e).__name__}: {str(e)[:100]}"
        if case.get("via_cli"):
            # the table printed by `pyimpspec parse --output-format csv` is itself such a file
            import pyimpspec.cli as cli

            buf = io.StringIO()
            old = sys.argv
            sys.argv = ["pyimpspec", "parse", path, "--output-format", "csv", "--suppress-progress"]
            try:
                with contextlib.redirect_stdout(buf):
                    cli.main()
            except SystemExit:
                pass
            except Exception as e:
                return f"cli-raises:{type(e).__name__}", f"`pyimpspec parse` raised {type(e).__name__}: {str(e)[:100]}"
            finally:
                sys.argv = old
            out = buf.getvalue()
            chunks = [c for c in out.split("\n\n") if c.strip()]
            ds = []
            for k, ch in enumerate(chunks):
                lines = [l for l in ch.splitlines() if l.strip()]
                if lines and ":" in lines[0] and "," not in lines[0]:
                    lines = lines[1:]  # "<path>: <label>" heading of multi-data-set output
                p2 = os.path.join(st["tmp"], f"{os.getpid()}_cli{k}.csv")
                with open(p2, "w") as fp:
                    fp.write("\n".join(lines) + "\n")
                try:
                    got = st["parse_data"](p2)
                finally:
                    os.unlink(p2)
                if len(got) != 1:
                    return "cli-table-splits", f"the table printed for one data set parses to {len(got)} data sets"
                ds.extend(got)
            if len(expected) > 1 or len(ds) > 1:
                # labels of re-parsed single tables carry no sweep number: compare values only
                if len(ds) != len(expected):
                    return "cli-sweep-count", f"`parse` printed {len(ds)} tables for {len(expected)} sweeps"
                for d, sw in zip(ds, expected):
                    r = compare([d], [sw], max(rtol, 1e-12), st)
                    if r:
                        return "cli-" + r[0], r[1]
                return "ok", ""
        r = compare(ds, expected, rtol, st)
        if r:
            return r
        return "ok", ""
    finally:
        try:
            os.unlink(path)
        except OSError:
            pass


def responsible_features(case: dict, kind: str, st) -> Tuple[dict, List[str]]:
    """Greedy reduction towards the canonical table while the same kind of failure persists."""
    if case["kind"] != "table":
        c = dict(case)
        for k, v in (("n", 3), ("rows", "desc"), ("window", "same"), ("dec", "."), ("sweeps", 1)):
            if c.get(k, v) != v and not (k == "sweeps" and c["layout"] != "mpt"):
                c2 = dict(c)
                c2[k] = v
                if outcome(c2, st)[0] == kind:
                    c = c2
        feats = [f"layout={c['layout']}"] + [f"{k}={c[k]}" for k, v in (("n", 3), ("rows", "desc"), ("window", "same"), ("dec", "."), ("sweeps", 1)) if c.get(k, v) != v]
        return c, feats
    base = CANON_POLAR if case["polar"] else CANON
    c = dict(case)
    changed = True
    while changed:
        changed = False
        for k in base:
            if k in ("kind", "polar"):
                continue
            if c.get(k) != base[k]:
                c2 = dict(c)
                c2[k] = base[k]
                try:
                    if outcome(c2, st)[0] == kind:
                        c = c2
                        changed = True
                except Exception:
                    pass
    for k in ("via_cli", "ext"):
        if c.get(k):
            c2 = {kk: vv for kk, vv in c.items() if kk != k}
            if outcome(c2, st)[0] == kind:
                c = c2
    feats = (["polar"] if c["polar"] else []) + [f"{k}={c[k]!r}" for k in base if k not in ("kind", "polar", "seed") and c.get(k) != base[k]]
    feats += [k for k in ("via_cli", "ext") if c.get(k)]
    return c, feats


def run_case(case: dict, st=None) -> Tuple[List[dict], str]:
    st = st or setup()
    kind, msg = outcome(case, st)
    if kind in ("ok", "outside-contract"):
        return [], kind
    c, feats = responsible_features(case, kind, st)
    k2, msg2 = outcome(c, st)
    if k2 == kind:
        msg = msg2
    else:
        c = case
    return [{"key": f"file|{kind}|" + ("|".join(feats) or "canonical"), "what": f"{msg} [{'; '.join(feats) or 'canonical table'}]", "case": c,
             "detail": (emit(c)[1][:400] if emit(c) else "")}], kind


def _chunk(cases) -> dict:
    st = setup()
    viols: Dict[str, dict] = {}
    nontrivial = []
    outcomes: Dict[str, int] = {}
    n = 0
    sample = None
    cache: Dict[Tuple, str] = {}
    for case in cases:
        kind, msg = outcome(case, st)
        if kind == "outside-contract":
            outcomes[kind] = outcomes.get(kind, 0) + 1
            continue
        n += 1
        outcomes[kind.split(":")[0]] = outcomes.get(kind.split(":")[0], 0) + 1
        nontrivial.append(hash(repr(sorted(case.items()))))
        if sample is None and case["kind"] == "table" and case["sep"] == ";" and case["dec"] == "," and case["sweeps"] == 2:
            sample = {"case": case, "file": emit(case)[1][:300]}
        if kind != "ok":
            sig = (kind, case.get("layout"), case.get("n"), case.get("sep"), case.get("dec"), case.get("sweeps"), case.get("neg_b"), case.get("b"))
            key = cache.get(sig)
            if key is None:
                v, _ = run_case(case, st)
                if not v:
                    continue
                key = v[0]["key"]
                cache[sig] = key
                if key not in viols:
                    v[0]["count"] = 0
                    viols[key] = v[0]
            viols[key]["count"] += 1
    return {"n": n, "nontrivial": nontrivial, "outcomes": outcomes, "violations": list(viols.values()), "samples": [sample] if sample else []}


def cases(thorough: bool) -> List[dict]:
    out: List[dict] = []
    sepdec = [(s, d) for s in F.SEPARATORS for d in (".", ",") if not (s == "," and d == ",")]
    cases_ = ["lower", "upper", "title"]
    units = ["none", "paren", "slash"]
    orders = ["f-first", "f-last", "extra"]
    k = 0
    # (1) every alias triple x letter case x separator/decimal; the other switches rotate (mixed radix of k) in quick and are crossed in thorough
    for polar, A, B in ((False, F.REAL_ALIASES, F.IMAG_ALIASES), (True, F.MAG_ALIASES, F.PHASE_ALIASES)):
        for fa, aa, ba in itertools.product(F.FREQ_ALIASES, A, B):
            for cs in cases_:
                for sep, dec in sepdec:
                    if thorough:
                        combos = itertools.product(F.NEG_MARKERS, orders, ("desc", "asc"))
                    else:
                        combos = [(F.NEG_MARKERS[k % 3], orders[(k // 3) % 3], ("desc", "asc")[(k // 9) % 2])]
                    for neg, order, rows in combos:
                        k += 1
                        n_ = (2, 3, 7, 1)[(k // 7) % 4]
                        out.append(dict(CANON, polar=polar, f=fa, a=aa, b=ba, case=cs, sep=sep, dec=dec, neg_b=neg,
                                        neg_a=("" if polar else F.NEG_MARKERS[(k // 2) % 3]), unit=units[k % 3], order=order, rows=rows,
                                        sweeps=(1 + (k // 5) % 3) if n_ > 1 else 1, n=n_, seed=k % 50))
    # (2) full product of the structural switches with fixed aliases
    for polar in (False, True):
        base = CANON_POLAR if polar else CANON
        for neg_a, neg_b, unit, order, rows, sweeps, n, (sep, dec) in itertools.product(
                F.NEG_MARKERS if not polar else [""], F.NEG_MARKERS, units, orders, ("desc", "asc"), (1, 2, 3), (1, 2, 3, 7), sepdec):
            if n == 1 and sweeps > 1:
                continue  # consecutive one-point sweeps are not a sweep structure
            for window in (("same", "away", "toward") if sweeps > 1 and (thorough or (neg_a == "" and unit == "none")) else ("same",)):
                for whole in (("none", "f", "re", "all") if (thorough or (neg_a == "" and unit == "none" and window == "same")) else ("none",)):
                    if whole != "none" and window == "toward":
                        continue   # shifted decade grids would coincide at the sweep boundary
                    if polar and whole in ("re", "all"):
                        continue   # whole-number real parts next to tiny imaginary parts are ill-conditioned in modulus/phase form
                    k += 1
                    out.append(dict(base, neg_a=neg_a, neg_b=neg_b, unit=unit, order=order, rows=rows, sweeps=sweeps, n=n, sep=sep, dec=dec, seed=k % 50,
                                    a=("z'" if not polar else "|z|"), b=("z''" if not polar else "phz"), f="freq",
                                    ext=".txt" if k % 4 == 0 else ".csv", window=window, whole=whole))
    # (3) the table printed by the CLI is itself such a file
    for n, sweeps, rows, (sep, dec) in itertools.product((1, 2, 7), (1, 2), ("desc", "asc"), [(",", "."), ("\t", ","), (";", ",")]):
        if n == 1 and sweeps > 1:
            continue
        out.append(dict(CANON, n=n, sweeps=sweeps, rows=rows, sep=sep, dec=dec, via_cli=True, seed=n + sweeps))
    # (4) instrument layouts
    for lay in ("mpt", "i2b", "P00", "dfr", "z", "dta", "dta-drift"):
        for n in (1, 2, 3, 7):
            for rows in ("desc", "asc"):
                for sweeps in ((1, 2, 3) if lay == "mpt" else (1,)):
                    if n == 1 and sweeps > 1:
                        continue
                    for seed in ((1, 2, 3) if thorough else (1,)):
                        for window in (("same", "away", "toward") if sweeps > 1 else ("same",)):
                            for dec in ((".", ",") if lay in ("mpt", "P00", "dfr") else (".",)):
                                out.append({"kind": "instrument", "layout": lay, "n": n, "rows": rows, "sweeps": sweeps, "seed": seed, "window": window, "dec": dec})
    return out


def run(ctx) -> None:
    thorough = ctx.tier == "thorough"
    st = setup()
    ctx.rule = ("delimited tables: every (frequency alias x real alias x imaginary alias) and (frequency x modulus x phase alias) triple x "
                "letter case x separator/decimal-mark combination, with negation markers (none, '-', unicode minus), unit suffix, column order "
                "(f first / f last / unrelated extra column), row order, 1-3 sweeps (over the same window, or each sweep shifted away from / toward the "
                "first sweep's start), whole-number cells written without a fractional part (frequency column / real column / all columns) and 1/2/3/7 points rotating in quick and crossed in "
                "thorough; plus the full product of those structural switches with fixed aliases (cartesian and polar, .csv and .txt); the CSV "
                "table printed by `pyimpspec parse` fed back to parse_data; instrument layouts .mpt (1-3 sweeps), .i2b, .P00, .dfr, .z, .dta "
                "(decimal commas; with and without drift-corrected columns; .mpt/.P00/.dfr also with decimal commas) x 1/2/3/7 points x row order. Excluded by the documented detection "
                "contract: decimal comma with comma separator, header text containing the separator. Spectra span 12 decades with both signs.")
    ctx.exhaustive = True
    ctx.assumptions = ["parsing without a file extension is not checked: the brute-force parser order depends on set iteration order",
                       "emitters for instrument layouts are modelled on the files under /repo/tests"]
    cs = cases(thorough)
    k = 128
    try:
        ctx.pmap(_chunk, [cs[i::k] for i in range(k) if cs[i::k]], label="files")
    finally:
        shutil.rmtree(st["tmp"], ignore_errors=True)
    ctx.extra["files_generated"] = len(cs)


def replay(case: dict) -> list:
    st = dict(setup(), tmp=tempfile.mkdtemp(prefix="vf_c06r_"))   # replays run concurrently: each gets its own scratch directory
    try:
        return run_case(case, st)[0]
    finally:
        shutil.rmtree(st["tmp"], ignore_errors=True)
