"""vf - bounded-exhaustive / explicit-state verification harness for pyimpspec (see /verif/DESIGN.md)."""
