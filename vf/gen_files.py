"""Emitters for the documented delimited-table conventions and the simple instrument text layouts.

A spectrum is a list of sweeps; a sweep is a list of (f, Z) in the row order it is written.
All emitters return (filename, text, encoding, rtol) - rtol is the precision the layout can carry.
"""
from __future__ import annotations

import cmath
import math
from typing import Dict, List, Optional, Sequence, Tuple

FREQ_ALIASES = ["frequency", "freq", "f"]
REAL_ALIASES = ["z'", "z re", "z_re", "zre", "real", "re"]
IMAG_ALIASES = ['z"', "z''", "z im", "z_im", "zim", "imaginary", "imag", "im"]
MAG_ALIASES = ["|z|", "z", "magnitude", "modulus", "mag", "mod"]
PHASE_ALIASES = ["phase", "phz", "phi"]
SEPARATORS = [",", "\t", ";", " "]
NEG_MARKERS = ["", "-", "−"]
UNIT_SUFFIX = {"none": ("", "", ""), "paren": (" (Hz)", " (ohm)", " (deg)"), "slash": ("/Hz", "/Ohm", "/deg")}


def spectrum(n: int, seed: int) -> List[Tuple[float, complex]]:
    """n points in descending frequency order; magnitudes over 12 decades, both signs of Re and Im; deterministic."""
    pts = []
    x = (seed * 2654435761 + 12345) % (2 ** 32)
    for i in range(n):
        f = 10.0 ** (4 - i * (5.0 / max(n - 1, 1))) if n > 1 else 10.0
        vals = []
        for _ in range(3):
            x = (x * 1664525 + 1013904223) % (2 ** 32)
            vals.append(x / 2 ** 32)
        mag = 10.0 ** (vals[0] * 12 - 6)
        re = (vals[1] * 2 - 1)
        im = (vals[2] * 2 - 1)
        if abs(re) < 0.05:
            re = 0.05 if re >= 0 else -0.05
        if abs(im) < 0.05:
            im = -0.05 if im <= 0 else 0.05
        pts.append((float(f), complex(re * mag, im * mag)))
    return pts


def num(x: float, decimal: str, ints: bool = False) -> str:
    """`ints`: whole numbers are written without a fractional part (10000 rather than 10000.0), as spreadsheets and loggers do."""
    if ints and float(x).is_integer() and abs(x) < 1e15:
        return str(int(x))
    s = repr(float(x))
    return s.replace(".", ",") if decimal == "," else s


def apply_case(h: str, case: str) -> str:
    return {"lower": h.lower(), "upper": h.upper(), "title": h.title()}[case]


def table(sweeps: Sequence[Sequence[Tuple[float, complex]]], *, polar: bool, f_alias: str, a_alias: str, b_alias: str, case: str,
          neg_a: str, neg_b: str, unit: str, order: str, sep: str, decimal: str, ints: bool = False) -> Optional[str]:
    """Delimited text table. a/b = real/imaginary (cartesian) or magnitude/phase in degrees (polar).
    Returns None when the combination violates the documented detection contract
    (decimal comma with comma separator; header text containing the separator)."""
    if decimal == "," and sep == ",":
        return None
    uf, ua, ub = UNIT_SUFFIX[unit]
    if polar:
        ub = UNIT_SUFFIX[unit][2]
    hf = apply_case(f_alias, case) + uf
    ha = neg_a + apply_case(a_alias, case) + ua
    hb = neg_b + apply_case(b_alias, case) + ub
    extra = "Time" + ("/s" if unit != "paren" else " (s)")
    headers = {"f-first": [hf, ha, hb], "f-last": [ha, hb, hf], "extra": [extra, hf, ha, hb]}[order]
    if sep in (" ", ";"):
        headers = [h.replace(" (", "(") for h in headers]
    if any(sep in h for h in headers):
        return None
    if sep == ";" and any(" " in h for h in headers):
        return None  # documented contract: space- or semicolon-separated files use space-free headers
    if polar and neg_a:
        return None  # a sign-inverted modulus column is not a documented convention
    lines = [sep.join(headers)]
    t = 0.0
    for sw in sweeps:
        for f, z in sw:
            if polar:
                a = abs(z)
                b = math.degrees(cmath.phase(z))
            else:
                a, b = z.real, z.imag
            if neg_a:
                a = -a
            if neg_b:
                b = -b
            cells = {"f-first": [num(f, decimal, ints), num(a, decimal, ints), num(b, decimal, ints)],
                     "f-last": [num(a, decimal, ints), num(b, decimal, ints), num(f, decimal, ints)],
                     "extra": [num(t, decimal, ints), num(f, decimal, ints), num(a, decimal, ints), num(b, decimal, ints)]}[order]
            lines.append(sep.join(cells))
            t += 0.5
    return "\n".join(lines) + "\n"


# ---------------------------------------------------------------------------------------------------
# instrument layouts (modelled on the files under /repo/tests)

def _dec(txt: str, decimal: str) -> str:
    return txt.replace(".", ",") if decimal == "," else txt


def mpt(sweeps, decimal: str = ".") -> Tuple[str, str, str, float]:
    hdr = "EC-Lab ASCII FILE\nNb header lines : 4\n\nfreq/Hz\tRe(Z)/Ohm\t-Im(Z)/Ohm\t|Z|/Ohm\tPhase(Z)/deg\n"
    rows = []
    for sw in sweeps:
        for f, z in sw:
            rows.append(_dec(f"{f:.7E}\t{z.real:.7E}\t{-z.imag:.7E}\t{abs(z):.7E}\t{math.degrees(cmath.phase(z)):.7E}", decimal))
    return "s.mpt", hdr + "\n".join(rows) + "\n", "latin1", 2e-7


def i2b(sw) -> Tuple[str, str, str, float]:
    txt = "meta\nmeta\nmeta\nmeta\n\n%d\n" % len(sw) + "\n".join(f"{f!r} {z.real!r} {z.imag!r}" for f, z in sw) + "\n"
    return "s.i2b", txt, "utf-8", 1e-14


def p00(sw, decimal: str = ".") -> Tuple[str, str, str, float]:
    txt = ("Procedure : t\nDD\nDescription\nt = 1 s\n f/Hz \t Z'/Ohm \t -Z''/Ohm \t time/s \t Edc/V \t Idc/A \t\n %d \n" % len(sw)
           + "\n".join(_dec(f" {f:.9e}\t {z.real:.9e}\t {-z.imag:.9e}\t 1.0\t 0.1\t 1e-8\t", decimal) for f, z in sw) + "\n")
    return "s.P00", txt, "utf-8", 2e-9


def dfr(sw, decimal: str = ".") -> Tuple[str, str, str, float]:
    txt = "VERSION8.0\n %d\n 1\n" % len(sw) + "".join(
        _dec(f" {f!r}\n {z.real!r}\n {-z.imag!r}\n 0.0\n 0.0\n 0.0\n 0.0\n 0.0\n 0.0\n", decimal) for f, z in sw)
    return "s.dfr", txt, "utf-8", 1e-14


def zplot(sw) -> Tuple[str, str, str, float]:
    txt = ("ZPLOT2 ASCII\n  Measured Data\n  Freq(Hz)\tAmpl\tBias\tTime(Sec)\tZ'(a)\tZ''(b)\tGD\tErr\tRange\nEnd Comments\n"
           + "\n".join(f"{f:.9E}\t0\t0\t0\t{z.real:.9E}\t{z.imag:.9E}\t0\t0\t0" for f, z in sw) + "\n")
    return "s.z", txt, "utf-8", 2e-9


def dta(sw, drift_columns: bool = False) -> Tuple[str, str, str, float]:
    """Gamry layout with decimal commas. With drift correction the file carries two spectra: corrected (= 1.5 x Z here, so the
    two cannot be confused) followed by uncorrected."""
    head = "EXPLAIN\nTAG\tEISPOT\n"
    if drift_columns:
        head += "DRIFTCOR\tTOGGLE\t1\tDrift Correction\n"
    head += "ZCURVE\tTABLE\n"
    if drift_columns:
        head += "\tPt\tTime\tFreq\tZreal\tZimag\tZsig\tZmod\tZphz\tZrealDrCor\tZimagDrCor\tIdc\tVdc\tIERange\n\t#\ts\tHz\tohm\tohm\tV\tohm\t°\tohm\tohm\tA\tV\t#\n"
    else:
        head += "\tPt\tTime\tFreq\tZreal\tZimag\tZsig\tZmod\tZphz\tIdc\tVdc\tIERange\n\t#\ts\tHz\tohm\tohm\tV\tohm\t°\tA\tV\t#\n"
    rows = []
    for j, (f, z) in enumerate(sw):
        r = f"\t{j}\t0\t{f!r}\t{z.real!r}\t{z.imag!r}\t1\t{abs(z)!r}\t0"
        if drift_columns:
            r += f"\t{(z * 1.5).real!r}\t{(z * 1.5).imag!r}"
        r += "\t0\t0\t8"
        rows.append(r.replace(".", ","))
    return "s.dta", head + "\n".join(rows) + "\n", "latin1", 1e-14
