"""Small shared helpers: exception signatures, time limits, chunking, float formatting."""
from __future__ import annotations

import linecache
import os
import re
import signal
import traceback
from contextlib import contextmanager
from typing import Any, Iterable, Iterator, List, Optional, Sequence, Tuple

from vf.runner import REPO_SRC

PKG = os.path.join(os.path.realpath(REPO_SRC), "pyimpspec") + os.sep


class CaseTimeout(Exception):
    pass


@contextmanager
def time_limit(seconds: float):
    """Raise CaseTimeout inside the block after `seconds` (main thread of a worker process only)."""

    def handler(signum, frame):
        raise CaseTimeout()

    old = signal.signal(signal.SIGALRM, handler)
    signal.setitimer(signal.ITIMER_REAL, seconds)
    try:
        yield
    finally:
        signal.setitimer(signal.ITIMER_REAL, 0)
        signal.signal(signal.SIGALRM, old)


def frames_of(exc: BaseException) -> List[Tuple[str, str, int, str]]:
    out = []
    for fs in traceback.extract_tb(exc.__traceback__):
        out.append((os.path.realpath(fs.filename), fs.name, fs.lineno or 0, (fs.line or "").strip()))
    return out


def innermost_pkg_frame(exc: BaseException) -> Optional[Tuple[str, str, int, str]]:
    """Innermost traceback frame that lies in pyimpspec's source tree (file relative to the package)."""
    last = None
    for fn, name, lineno, line in frames_of(exc):
        if fn.startswith(PKG):
            last = (fn[len(PKG):], name, lineno, line)
    return last


def raised_explicitly_by_pkg(exc: BaseException) -> bool:
    """True when the raising (innermost) frame is pyimpspec code and its statement is an explicit `raise`.

    Multi-line raise statements report the line of the expression start on 3.12, which begins with `raise`;
    to be robust the enclosing statement is searched upwards for a line starting with `raise` (<= 12 lines).
    """
    fr = frames_of(exc)
    if not fr:
        return False
    fn, name, lineno, line = fr[-1]
    if not fn.startswith(PKG):
        return False
    if line.startswith("raise"):
        return True
    for back in range(1, 13):
        l = linecache.getline(fn, lineno - back).strip()
        if l.startswith("raise"):
            # still inside that statement only if brackets are unbalanced up to here
            seg = "".join(linecache.getline(fn, k) for k in range(lineno - back, lineno))
            if seg.count("(") + seg.count("[") + seg.count("{") > seg.count(")") + seg.count("]") + seg.count("}"):
                return True
            return False
        if l.endswith(":") and not l.startswith(("'", '"', "f'", 'f"')):
            break
    return False


_num = re.compile(r"[-+]?\d+(\.\d+)?([eE][-+]?\d+)?")
_hex = re.compile(r"0x[0-9a-fA-F]+")


def norm_msg(msg: str, n: int = 60) -> str:
    """Exception message with numbers/addresses/quoted payloads blanked, for stable finding keys."""
    msg = _hex.sub("#", str(msg))
    msg = re.sub(r"'[^']*'", "'_'", msg)
    msg = re.sub(r'"[^"]*"', '"_"', msg)
    msg = _num.sub("#", msg)
    msg = re.sub(r"\s+", " ", msg).strip()
    return msg[:n]


def exc_signature(exc: BaseException) -> str:
    fr = innermost_pkg_frame(exc)
    site = f"{fr[0]}:{fr[1]}" if fr else "<outside pyimpspec>"
    return f"{type(exc).__name__}@{site}"


def chunked(seq: Sequence[Any], n: int) -> List[List[Any]]:
    return [list(seq[i:i + n]) for i in range(0, len(seq), n)]


def round_robin(seq: Sequence[Any], k: int) -> List[List[Any]]:
    k = max(1, k)
    out = [[] for _ in range(k)]
    for i, x in enumerate(seq):
        out[i % k].append(x)
    return [c for c in out if c]


def pyfloat(x: Any) -> float:
    return float(x)
